------------------------------- MODULE Retry -------------------------------
(* Layer P (extension fxretry, host C04): what one call of core/fx DoWithRetry /
   DoWithRetryCtx is documented to do, phrased over what a caller can observe:

     start      the call begins with its options (WithRetry times, WithInterval,
                WithTimeout, WithIgnoreErrors) and the state of the caller's context
     attempt    fn is entered (fn is the caller's: it knows which call this is, what
                retryCount it was given and what it is going to answer)
     cancel     the caller cancels its context
     return     the call returns nil or an aggregated error (errorx.BatchError.Err():
                the messages of the collected errors, in order)

   "DoWithRetry runs fn, and retries if failed. Default to retry 3 times."  The tests
   add: stops at the first success; an error matching (errors.Is) one of the ignored
   errors ends the call with nil; the timeout / the caller's context end the call with
   the context's error appended to the errors collected so far; retryCount counts
   from 0.

   Time is not observable here.  An interval / timeout is one of
     "none"   option not given,
     "short"  may elapse at any moment (the spec never demands that it has or has not),
     "huge"   1000 s: does not elapse during a call (a call is bounded by the
              harness watchdog, which is an infrastructure failure, not a verdict).
   Where Go's select may pick either of two ready cases the law admits both.         *)
EXTENDS Integers, Sequences, FiniteSets, TLC

DefaultTimes == 3                      \* "Default to retry 3 times"

VARIABLES
  cfg,     \* options of the call: [variant, times (0 = option not given), ivl, tmo, ign, pre]
  st,      \* "idle" | "run" | "ret" | "end"
  outs,    \* attempts entered so far: sequence of [out |-> what fn answers, rc |-> retryCount it got]
  ended,   \* context errors that may be in force: subset of {"canceled", "deadline"}
  res,     \* [set, r: returned error messages (<<>> = nil), n: attempts entered at the return, en: ended then]
  late     \* the attempt spawned just before a return by ctx.Done may still enter fn (once)

rvars == <<cfg, st, outs, ended, res, late>>

Variants  == {"plain", "ctx"}          \* DoWithRetry / DoWithRetryCtx
Durations == {"none", "short", "huge"}
Pres      == {"bg", "live", "canceled", "deadline"}   \* caller's context at the call: Background / cancellable /
                                                      \* already cancelled / deadline already passed
Outcomes  == {"nil", "E1", "E2", "IG1", "IG2", "WIG1", "hang"}
              \* nil; plain errors; errors that may be on the ignore list; WIG1 wraps IG1 (errors.Is);
              \* hang: fn blocks until the call has returned

NoCfg == [variant |-> "plain", times |-> 1, ivl |-> "none", tmo |-> "none", ign |-> {}, pre |-> "bg"]
NoRes == [set |-> FALSE, r |-> <<>>, n |-> 0, en |-> {}]

CfgOK(c) ==
  /\ c.variant \in Variants /\ c.times \in 0..8 /\ c.ivl \in Durations /\ c.tmo \in Durations
  /\ c.ign \subseteq {"IG1", "IG2"} /\ c.pre \in Pres
  /\ (c.variant = "plain" => c.pre = "bg")

Times(c) == IF c.times = 0 THEN DefaultTimes ELSE c.times

CtxText(k) == IF k = "canceled" THEN "context canceled" ELSE "context deadline exceeded"

Base(o)       == IF o = "WIG1" THEN "IG1" ELSE o
Ignored(c, o) == Base(o) \in c.ign
Succ(c, o)    == o = "nil" \/ (o # "hang" /\ Ignored(c, o))       \* ends the call with nil
Fail(c, o)    == o \notin {"nil", "hang"} /\ ~Ignored(c, o)        \* collected, retried
Prefix(s, n)  == SubSeq(s, 1, n)
Names(s)      == [i \in DOMAIN s |-> s[i].out]
AllFail(c, s) == \A i \in DOMAIN s : Fail(c, s[i].out)

\* context errors in force when the call starts
Ended0(c) == (IF c.tmo = "short" THEN {"deadline"} ELSE {})
             \cup (IF c.pre = "canceled" THEN {"canceled"} ELSE {})
             \cup (IF c.pre = "deadline" THEN {"deadline"} ELSE {})

(* ---- the law of the result --------------------------------------------------
   s: attempts entered when the call returned, en: context errors possibly in force,
   r: messages of the returned error (<<>> = nil).                                  *)
AllowedRes(c, s, en, r) ==
  LET n == Len(s) IN
  \* stops at the first success / ignored error: nil, whatever was collected before
  \/ /\ n >= 1 /\ AllFail(c, Prefix(s, n - 1)) /\ Succ(c, s[n].out)
     /\ r = <<>>
  \* all attempts used, all failed: every error, in order
  \/ /\ n = Times(c) /\ AllFail(c, s) /\ c.ivl # "huge"
     /\ r = Names(s)
  \* ... the context may end during the interval that follows the last attempt as well
  \/ /\ n = Times(c) /\ AllFail(c, s) /\ c.ivl # "none"
     /\ \E k \in en : r = Append(Names(s), CtxText(k))
  \* the context ended between two attempts (the next one may have been spawned already)
  \/ /\ n < Times(c) /\ AllFail(c, s)
     /\ \E k \in en : r = Append(Names(s), CtxText(k))
  \* the context ended while the last attempt was running: that attempt is abandoned
  \/ /\ n >= 1 /\ AllFail(c, Prefix(s, n - 1))
     /\ \E k \in en : r = Append(Names(Prefix(s, n - 1)), CtxText(k))

\* the returned error matches (errors.Is) exactly these
IsSet(r) == {r[i] : i \in DOMAIN r} \cup (IF \E i \in DOMAIN r : r[i] = "WIG1" THEN {"IG1"} ELSE {})

\* after a return by ctx.Done between two attempts, the goroutine of the next attempt may
\* already exist and enter fn afterwards (it is then the only one, and nobody waits for it)
LateAllowed(c, x) ==
  /\ x.set /\ x.n < Times(c) /\ Len(x.r) = x.n + 1
  /\ (c.ivl = "huge" => x.n = 0)

RetryCountOK(c, rc, idx) == IF c.variant = "ctx" THEN rc = idx ELSE rc = -1

(* ---- state predicates: the guards of the actions below, as properties of a state.
        Layer I (RetryImpl) records unguarded and is checked against these.          *)
AttemptsOK ==
  /\ Len(outs) <= Times(cfg)                                   \* never more than `times` attempts
  /\ \A i \in 1..Len(outs) : RetryCountOK(cfg, outs[i].rc, i - 1)
  /\ \A i \in 1..(Len(outs) - 1) : Fail(cfg, outs[i].out)      \* an attempt follows failures only
  /\ (cfg.ivl = "huge" => Len(outs) <= 1)                      \* the interval separates attempts
ResultOK ==
  res.set => /\ res.n <= Len(outs)
             /\ AllowedRes(cfg, Prefix(outs, res.n), res.en, res.r)
LateOK ==
  (res.set /\ Len(outs) > res.n) => (Len(outs) = res.n + 1 /\ LateAllowed(cfg, res))
NoCtxErrorWithoutCause ==        \* a context error in the result needs a context that could have ended
  res.set => \A i \in DOMAIN res.r :
     /\ (res.r[i] = CtxText("canceled") => "canceled" \in res.en)
     /\ (res.r[i] = CtxText("deadline") => "deadline" \in res.en)
NilMeansSuccess ==
  (res.set /\ res.r = <<>>) => (res.n >= 1 /\ Succ(cfg, outs[res.n].out))
RTypeOK ==
  /\ CfgOK(cfg) /\ st \in {"idle", "run", "ret", "end"}
  /\ ended \subseteq {"canceled", "deadline"} /\ late \in BOOLEAN

(* ---- actions ---------------------------------------------------------------- *)
RInit == cfg = NoCfg /\ st = "idle" /\ outs = <<>> /\ ended = {} /\ res = NoRes /\ late = FALSE

Start(c) ==
  /\ st = "idle" /\ CfgOK(c)
  /\ cfg' = c /\ st' = "run" /\ outs' = <<>> /\ ended' = Ended0(c) /\ res' = NoRes /\ late' = FALSE

AttemptEff(rc, o) == outs' = Append(outs, [out |-> o, rc |-> rc])
Attempt(rc, o) ==
  /\ st = "run" /\ o \in Outcomes
  /\ Len(outs) < Times(cfg)
  /\ AllFail(cfg, outs)
  /\ (cfg.ivl = "huge" => outs = <<>>)
  /\ RetryCountOK(cfg, rc, Len(outs))
  /\ AttemptEff(rc, o)
  /\ UNCHANGED <<cfg, st, ended, res, late>>

Cancel ==
  /\ st \in {"run", "ret"} /\ cfg.pre = "live"
  /\ ended' = ended \cup {"canceled"}
  /\ UNCHANGED <<cfg, st, outs, res, late>>

ReturnEff(r) ==
  /\ res' = [set |-> TRUE, r |-> r, n |-> Len(outs), en |-> ended]
  /\ late' = LateAllowed(cfg, res')
  /\ st' = "ret"
Return(r) ==
  /\ st = "run"
  /\ AllowedRes(cfg, outs, ended, r)
  /\ ReturnEff(r)
  /\ UNCHANGED <<cfg, outs, ended>>

LateAttempt(rc, o) ==
  /\ st = "ret" /\ late /\ o \in Outcomes
  /\ RetryCountOK(cfg, rc, Len(outs))
  /\ AttemptEff(rc, o) /\ late' = FALSE
  /\ UNCHANGED <<cfg, st, ended, res>>

\* The call has not returned although nothing keeps it any more (recorded by the harness after a
\* watchdog).  Legitimate only where the call may block for ever: fn hangs, or the huge interval is
\* being slept, and no context error is or will be in force.
MayBlockForever ==
  /\ ended = {} /\ outs # <<>>
  /\ \/ outs[Len(outs)].out = "hang"
     \/ cfg.ivl = "huge" /\ AllFail(cfg, outs)
Stuck ==
  /\ st = "run" /\ MayBlockForever
  /\ st' = "end"
  /\ UNCHANGED <<cfg, outs, ended, res, late>>

\* the harness has seen every goroutine of the call finish (or be stuck for good)
End ==
  /\ st = "ret" /\ st' = "end"
  /\ UNCHANGED <<cfg, outs, ended, res, late>>

\* every result the law admits in the current state (used by the generator and by MC)
Results ==
  LET nm == Names(outs)
      pm == IF outs = <<>> THEN <<>> ELSE Names(Prefix(outs, Len(outs) - 1)) IN
  {<<>>, nm} \cup {Append(nm, CtxText(k)) : k \in ended} \cup {Append(pm, CtxText(k)) : k \in ended}
=============================================================================
