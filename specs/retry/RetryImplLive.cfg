SPECIFICATION FairSpec
CONSTANTS
  Variant = "code"
  Cfgs <- CfgsLive
  Outs <- OutsSmall
INVARIANTS Refines NoLeak
PROPERTIES Returns ReturnsWhenEnded
CHECK_DEADLOCK FALSE
