---------------------------- MODULE BatchErrImpl ----------------------------
(* Layer I (extension fxretry): batcherror.go -- a slice guarded by a sync.RWMutex.
   Add: Lock; for each non-nil err { be.errs = append(be.errs, err) }; Unlock.
   Err: RLock; errors.Join(be.errs...) (copies); RUnlock.   NotNil: RLock; len > 0.
   `append` is modelled as what it is without a lock: read the slice, then write the
   slice with one more element.  Layer P (BatchErr.tla) runs in lock-step: a call
   takes effect (Lin) when it acquires the lock; TLC checks that the slice equals
   Layer P's errs whenever no writer holds the lock, and that a reader returns Layer P's
   value.
   Variant "code" | "nolock" (Add without Lock/Unlock: lost updates) |
           "rlockadd" (Add takes the read lock: two adders at once)                   *)
EXTENDS BatchErr

CONSTANTS Variant, Procs, Lists     \* Lists: the argument lists an Add may be given

VARIABLES
  slice,   \* be.errs
  wlock,   \* writer holding the lock (0: none)
  rlock,   \* set of readers holding the lock
  pc,      \* proc |-> "idle" | "lock" | "read" | "write" | "unlock" | "rd" | "runlock" | "done"
  loc      \* proc |-> [op, todo (errors still to append), tmp (slice read by append), got]

ivars == <<slice, wlock, rlock, pc, loc>>
vars == <<bvars, ivars>>

MCLists == {<<"a">>, <<"b", "", "c">>, <<"">>}

IInit ==
  /\ BInit
  /\ slice = <<>> /\ wlock = 0 /\ rlock = {}
  /\ pc = [p \in Procs |-> "idle"]
  /\ loc = [p \in Procs |-> [op |-> "add", todo |-> <<>>, tmp |-> <<>>, got |-> <<>>]]

Locked(p) == Variant # "nolock"
AsReader(p) == loc[p].op # "add" \/ Variant = "rlockadd"

Begin(p) == \E op \in {"add", "err"} : \E a \in (IF op = "add" THEN Lists ELSE {<<>>}) :
  /\ pc[p] = "idle"
  /\ CStart(p, op, a)
  /\ loc' = [loc EXCEPT ![p] = [op |-> op, todo |-> NonNil(a), tmp |-> <<>>, got |-> <<>>]]
  /\ pc' = [pc EXCEPT ![p] = "lock"]
  /\ UNCHANGED <<slice, wlock, rlock>>

\* Lock / RLock (or nothing); the call takes effect here
Acquire(p) ==
  /\ pc[p] = "lock"
  /\ IF loc[p].op = "add" /\ Variant = "nolock"
       THEN UNCHANGED <<wlock, rlock>>
       ELSE IF AsReader(p)
              THEN wlock = 0 /\ rlock' = rlock \cup {p} /\ UNCHANGED wlock
              ELSE wlock = 0 /\ rlock = {} /\ wlock' = p /\ UNCHANGED rlock
  /\ Lin(p)
  /\ pc' = [pc EXCEPT ![p] = IF loc[p].op = "add" THEN "read" ELSE "rd"]
  /\ UNCHANGED <<slice, loc>>

\* append, first half: read be.errs
AppendRead(p) ==
  /\ pc[p] = "read"
  /\ IF loc[p].todo = <<>>
       THEN pc' = [pc EXCEPT ![p] = "unlock"] /\ UNCHANGED loc
       ELSE pc' = [pc EXCEPT ![p] = "write"] /\ loc' = [loc EXCEPT ![p].tmp = slice]
  /\ UNCHANGED <<bvars, slice, wlock, rlock>>
\* append, second half: be.errs = tmp + [err]
AppendWrite(p) ==
  /\ pc[p] = "write"
  /\ slice' = Append(loc[p].tmp, Head(loc[p].todo))
  /\ loc' = [loc EXCEPT ![p].todo = Tail(loc[p].todo)]
  /\ pc' = [pc EXCEPT ![p] = "read"]
  /\ UNCHANGED <<bvars, wlock, rlock>>
Release(p) ==
  /\ pc[p] \in {"unlock", "runlock"}
  /\ wlock' = IF wlock = p THEN 0 ELSE wlock
  /\ rlock' = rlock \ {p}
  /\ CEnd(p)
  /\ pc' = [pc EXCEPT ![p] = "done"]
  /\ UNCHANGED <<slice, loc>>
\* Err: errors.Join copies the slice under the read lock
ReadSlice(p) ==
  /\ pc[p] = "rd"
  /\ loc' = [loc EXCEPT ![p].got = slice]
  /\ pc' = [pc EXCEPT ![p] = "runlock"]
  /\ UNCHANGED <<bvars, slice, wlock, rlock>>
Again(p) ==
  /\ pc[p] = "done" /\ Len(errs) < 4
  /\ pc' = [pc EXCEPT ![p] = "idle"]
  /\ UNCHANGED <<bvars, slice, wlock, rlock, loc>>

INext == \E p \in Procs : Begin(p) \/ Acquire(p) \/ AppendRead(p) \/ AppendWrite(p) \/ Release(p)
                          \/ ReadSlice(p) \/ Again(p)
ISpec == IInit /\ [][INext]_vars

\* ---- refinement
Writing == \E p \in Procs : pc[p] \in {"read", "write", "unlock"} /\ loc[p].op = "add"
SliceIsErrs == ~Writing => slice = errs
ReaderSeesLinearized ==
  \A p \in Procs : (pc[p] = "runlock" /\ p \in DOMAIN calls) => loc[p].got = calls[p].val
MutualExclusion == (wlock # 0 => rlock = {}) /\ Cardinality({p \in Procs : pc[p] \in {"read", "write", "unlock"}
                                                                  /\ loc[p].op = "add"}) <= 1
Refines == SliceIsErrs /\ ReaderSeesLinearized /\ NoNilInside
=============================================================================
