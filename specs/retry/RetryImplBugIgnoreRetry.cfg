SPECIFICATION ISpec
CONSTANTS
  Variant = "ignoreretry"
  Cfgs <- CfgsSmall
  Outs <- OutsSmall
INVARIANTS Refines NoLeak
CHECK_DEADLOCK FALSE
