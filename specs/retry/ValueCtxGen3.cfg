SPECIFICATION GSpec
CONSTANTS
  VOnlyMode = "detach"
  MaxNodes = 3
  MaxCancels = 2
  Keys = {1, 2}
  Vals = {1, 2}
  Ranks = {0, 1, 2}
  Emit = TRUE
  NeedVOnly = TRUE
INVARIANTS Props PrintHist
VIEW View
CHECK_DEADLOCK FALSE
