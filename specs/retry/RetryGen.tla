------------------------------ MODULE RetryGen ------------------------------
(* Generation (spec -> code) for the extension fxretry: TLC enumerates the behaviours
   of Layer P (Retry.tla) -- options, what fn answers attempt by attempt, where the
   caller cancels, which of the admitted results is returned, a late attempt -- and
   prints ONE operation history per distinct final state.  The Go driver turns a history
   into a plan (options, fn's script, where to cancel) and runs it on the real
   DoWithRetry / DoWithRetryCtx; whatever the code then does is validated by
   RetryTrace.tla.                                                                    *)
EXTENDS Retry, Json

CONSTANTS
  GTimes,     \* values of the WithRetry option (0: not given)
  GOuts,      \* what fn may answer
  Emit

VARIABLE hist
gvars == <<rvars, hist>>

IgnSeq(S) == IF S = {} THEN <<>> ELSE IF S = {"IG1"} THEN <<"IG1">> ELSE <<"IG1", "IG2">>

\* (interval, timeout) combinations worth a replay
Pairs == {<<"none", "none">>, <<"short", "none">>, <<"none", "short">>, <<"short", "short">>,
          <<"huge", "none">>, <<"none", "huge">>, <<"huge", "short">>}
GCfgs == {c \in [variant : Variants, times : GTimes, ivl : Durations, tmo : Durations,
                 ign : {{}, {"IG1"}}, pre : Pres] : CfgOK(c) /\ <<c.ivl, c.tmo>> \in Pairs}

GInit == RInit /\ hist = <<>>

GStart == \E c \in GCfgs :
  /\ Start(c)
  /\ hist' = <<[op |-> "start", variant |-> c.variant, times |-> c.times, ivl |-> c.ivl, tmo |-> c.tmo,
                ign |-> IgnSeq(c.ign), pre |-> c.pre]>>
GAttempt == \E o \in GOuts :
  /\ Attempt(IF cfg.variant = "ctx" THEN Len(outs) ELSE -1, o)
  /\ hist' = Append(hist, [op |-> "att", out |-> o])
GCancel ==
  /\ st = "run" /\ "canceled" \notin ended /\ Cancel
  /\ hist' = Append(hist, [op |-> "cancel"])
GReturn == \E r \in Results :
  /\ Return(r)
  /\ hist' = Append(hist, [op |-> "ret", r |-> r])
GLate == \E o \in GOuts \ {"hang"} :
  /\ LateAttempt(IF cfg.variant = "ctx" THEN Len(outs) ELSE -1, o)
  /\ hist' = Append(hist, [op |-> "att", out |-> o])
GEnd == End /\ UNCHANGED hist

GNext == GStart \/ GAttempt \/ GCancel \/ GReturn \/ GLate \/ GEnd
GSpec == GInit /\ [][GNext]_gvars

View == rvars
PrintHist == (Emit /\ st = "end") => PrintT("TRACE " \o ToJson(hist))
\* Layer P satisfies its own predicates (sanity of the formulation)
Sane == RTypeOK /\ AttemptsOK /\ ResultOK /\ LateOK /\ NoCtxErrorWithoutCause /\ NilMeansSuccess
=============================================================================
