SPECIFICATION GSpec
CONSTANTS
  VOnlyMode = "detach"
  MaxNodes = 4
  MaxCancels = 2
  Keys = {1, 2}
  Vals = {1, 2}
  Ranks = {0, 1, 2}
  Emit = FALSE
  NeedVOnly = FALSE
INVARIANTS Props
VIEW View
CHECK_DEADLOCK FALSE
