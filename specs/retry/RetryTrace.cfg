SPECIFICATION TSpec
CONSTRAINT HW
INVARIANTS TInv
POSTCONDITION Accepted
CHECK_DEADLOCK FALSE
