SPECIFICATION GSpec
CONSTANTS
  VOnlyMode = "detach"
  MaxNodes = 4
  MaxCancels = 2
  Keys = {1}
  Vals = {1}
  Ranks = {0, 1}
  Emit = TRUE
  NeedVOnly = TRUE
INVARIANTS Props PrintHist
VIEW View
CHECK_DEADLOCK FALSE
