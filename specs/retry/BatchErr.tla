------------------------------ MODULE BatchErr ------------------------------
(* Layer P (extension fxretry): core/errorx BatchError -- "an error that can hold
   multiple errors".
     Add(errs...)  "adds one or more non-nil errors": nils are skipped, order kept
     Err()         "an error that represents all accumulated errors; nil if there are
                   no errors": the messages joined by newlines (one error: its message),
                   errors.Is finds every accumulated error and nothing else; the value
                   returned is a snapshot (later Adds do not change it)
     NotNil()      "at least one error inside"
   The type is documented by its lock and TestBatchErrorConcurrentAdd to be usable from
   several goroutines: a call takes effect atomically at some point between its start
   and its end (calls: started -> linearized -> ended).                              *)
EXTENDS Integers, Sequences, FiniteSets, TLC

VARIABLES
  errs,    \* accumulated errors (names), in order
  snaps,   \* handle |-> what an earlier Err() returned (kept by the caller)
  calls    \* concurrent calls in flight: id |-> [op, arg, lin, val]

bvars == <<errs, snaps, calls>>

NonNil(list) == SelectSeq(list, LAMBDA x : x # "")
SeqSet(s) == {s[i] : i \in DOMAIN s}

BInit == errs = <<>> /\ snaps = <<>> /\ calls = <<>>

\* ---- atomic (sequential) use
Add(list) == errs' = errs \o NonNil(list) /\ UNCHANGED <<snaps, calls>>
Err(h)    == snaps' = [x \in DOMAIN snaps \cup {h} |-> IF x = h THEN errs ELSE snaps[x]]
             /\ UNCHANGED <<errs, calls>>
NotNil    == UNCHANGED bvars
Reread(h) == h \in DOMAIN snaps /\ UNCHANGED bvars

\* what the operations answer in the current state
ErrValue    == errs
NotNilValue == errs # <<>>

\* ---- concurrent use: start, take effect once, end
CStart(id, op, arg) ==
  /\ id \notin DOMAIN calls /\ op \in {"add", "err", "notnil"}
  /\ calls' = [x \in DOMAIN calls \cup {id} |->
                 IF x = id THEN [op |-> op, arg |-> arg, lin |-> FALSE, val |-> <<>>] ELSE calls[x]]
  /\ UNCHANGED <<errs, snaps>>
Lin(id) ==
  /\ id \in DOMAIN calls /\ ~calls[id].lin
  /\ errs' = IF calls[id].op = "add" THEN errs \o NonNil(calls[id].arg) ELSE errs
  /\ calls' = [calls EXCEPT ![id].lin = TRUE, ![id].val = errs]
  /\ UNCHANGED snaps
CEnd(id) ==
  /\ id \in DOMAIN calls /\ calls[id].lin
  /\ calls' = [x \in DOMAIN calls \ {id} |-> calls[x]]
  /\ UNCHANGED <<errs, snaps>>

\* ---- properties (hold by construction; checked on Layer I and on recorded traces)
NoNilInside == \A i \in DOMAIN errs : errs[i] # ""
SnapsArePrefixes == \A h \in DOMAIN snaps :
   Len(snaps[h]) <= Len(errs) /\ SubSeq(errs, 1, Len(snaps[h])) = snaps[h]
OnlyGrows == [][Len(errs') >= Len(errs) /\ SubSeq(errs', 1, Len(errs)) = errs]_bvars
=============================================================================
