SPECIFICATION ISpec
CONSTANTS
  Variant = "extra"
  Cfgs <- CfgsSmall
  Outs <- OutsSmall
INVARIANTS Refines NoLeak
CHECK_DEADLOCK FALSE
