SPECIFICATION ISpec
CONSTANTS
  Variant = "nolock"
  Procs = {1, 2}
  Lists <- MCLists
INVARIANTS Refines
CHECK_DEADLOCK FALSE
