SPECIFICATION GSpec
CONSTANTS
  Depth = 4
  Emit = TRUE
INVARIANTS Props PrintHist
PROPERTIES OnlyGrows
CHECK_DEADLOCK FALSE
