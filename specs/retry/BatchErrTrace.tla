--------------------------- MODULE BatchErrTrace ---------------------------
(* Trace validation for the extension fxretry (errorx.BatchError part).
     reset
     add     errs                      be.Add(errs...) returned ("" = nil)
     err     h isnil parts lines is    be.Err() returned: parts = messages of the joined errors,
                                       lines = Error() split at newlines, is = which known errors
                                       errors.Is reports; the value is kept under handle h
     notnil  v                         be.NotNil() returned v
     reread  h parts lines             the value kept under h, read again now
     cstart  id op errs                a goroutine is about to call op ("add" | "err" | "notnil")
     cend    id op isnil parts lines is v      ... and the call returned
   Concurrent calls take effect at an unlogged point between cstart and cend (TLin).   *)
EXTENDS BatchErr, TraceKit

VARIABLE l
tvars == <<bvars, l>>

E == Trace[l]
IsEvent(e) == l <= Len(Trace) /\ E.e = e /\ l' = l + 1

ObsErr(ev, s) ==
  /\ ev.parts = s /\ ev.lines = s
  /\ ev.isnil = (s = <<>>)
  /\ SeqToSet(ev.is) = SeqSet(s)

TReset  == IsEvent("reset") /\ errs' = <<>> /\ snaps' = <<>> /\ calls' = <<>>
TAdd    == IsEvent("add") /\ calls = <<>> /\ Add(E.errs)
TErr    == IsEvent("err") /\ calls = <<>> /\ ObsErr(E, ErrValue) /\ Err(E.h)
TNotNil == IsEvent("notnil") /\ calls = <<>> /\ E.v = NotNilValue /\ NotNil
TReread == IsEvent("reread") /\ Reread(E.h) /\ E.parts = snaps[E.h] /\ E.lines = snaps[E.h]
TCStart == IsEvent("cstart") /\ CStart(E.id, E.op, E.errs)
TLin    == l <= Len(Trace) /\ (\E id \in DOMAIN calls : Lin(id)) /\ l' = l
TCEnd   == /\ IsEvent("cend")
           /\ E.id \in DOMAIN calls /\ calls[E.id].lin /\ calls[E.id].op = E.op
           /\ (E.op = "err" => ObsErr(E, calls[E.id].val))
           /\ (E.op = "notnil" => E.v = (calls[E.id].val # <<>>))
           /\ CEnd(E.id)

TInit == BInit /\ l = 1
TNext == TReset \/ TAdd \/ TErr \/ TNotNil \/ TReread \/ TCStart \/ TLin \/ TCEnd
TSpec == TInit /\ [][TNext]_tvars

TInv == NoNilInside /\ SnapsArePrefixes
HW == HighWater(l)
=============================================================================
