---------------------------- MODULE BatchErrGen ----------------------------
(* Generation for BatchErr.tla: every sequence of Depth sequential operations (Add with one
   of GLists, Err, NotNil); the driver replays it on a real errorx.BatchError and re-reads
   every Err() value at the end.                                                        *)
EXTENDS BatchErr, Json

CONSTANTS Depth, Emit
VARIABLE hist
gvars == <<bvars, hist>>

GLists == {<<"e1">>, <<"">>, <<"e2", "", "e1">>, <<"e3", "e4">>}

GInit == BInit /\ hist = <<>>
GNext ==
  /\ Len(hist) < Depth
  /\ \/ \E a \in GLists : Add(a) /\ hist' = Append(hist, [op |-> "add", errs |-> a])
     \/ Err(Len(hist) + 1) /\ hist' = Append(hist, [op |-> "err"])
     \/ NotNil /\ hist' = Append(hist, [op |-> "notnil"])
GSpec == GInit /\ [][GNext]_gvars

PrintHist == (Emit /\ Len(hist) = Depth) => PrintT("TRACE " \o ToJson(hist))
Props == NoNilInside /\ SnapsArePrefixes
=============================================================================
