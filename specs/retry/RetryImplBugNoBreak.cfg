SPECIFICATION ISpec
CONSTANTS
  Variant = "nobreak"
  Cfgs <- CfgsSmall
  Outs <- OutsSmall
INVARIANTS Refines NoLeak
CHECK_DEADLOCK FALSE
