SPECIFICATION TSpec
CONSTANTS
  VOnlyMode = "detach"
CONSTRAINT HW
INVARIANTS TInv
POSTCONDITION Accepted
CHECK_DEADLOCK FALSE
