SPECIFICATION ISpec
CONSTANTS
  Variant = "rlockadd"
  Procs = {1, 2}
  Lists <- MCLists
INVARIANTS Refines
CHECK_DEADLOCK FALSE
