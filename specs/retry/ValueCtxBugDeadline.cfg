SPECIFICATION GSpec
CONSTANTS
  VOnlyMode = "keepdeadline"
  MaxNodes = 3
  MaxCancels = 1
  Keys = {1}
  Vals = {1}
  Ranks = {0, 1}
  Emit = FALSE
  NeedVOnly = FALSE
INVARIANTS Props
VIEW View
CHECK_DEADLOCK FALSE
