SPECIFICATION GSpec
CONSTANTS
  GTimes = {0, 1, 2}
  GOuts = {"nil", "E1", "E2", "IG1", "WIG1", "hang"}
  Emit = TRUE
INVARIANTS Sane PrintHist
VIEW View
CHECK_DEADLOCK FALSE
