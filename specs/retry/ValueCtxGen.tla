---------------------------- MODULE ValueCtxGen ----------------------------
(* Model checking and generation for ValueCtx.tla: every way of building a context tree
   of MaxNodes nodes (WithCancel / WithDeadline / WithValue / ValueOnlyFrom under any
   earlier node) interleaved with up to MaxCancels effective cancel calls; one history per
   distinct final state is printed for replay on the real context / contextx packages.  *)
EXTENDS ValueCtx, Json

CONSTANTS MaxNodes, MaxCancels, Keys, Vals, Ranks, Emit, NeedVOnly

VARIABLE hist
gvars == <<cvars, hist>>

GInit == CInit /\ hist = <<>>

GMk ==
  /\ N < MaxNodes
  /\ \E p \in 0..N :
       \/ MkCancel(p) /\ hist' = Append(hist, [op |-> "mk", kind |-> "cancel", par |-> p, key |-> 0, val |-> 0, dl |-> -1])
       \/ \E d \in Ranks : MkDeadline(p, d)
             /\ hist' = Append(hist, [op |-> "mk", kind |-> "deadline", par |-> p, key |-> 0, val |-> 0, dl |-> d])
       \/ \E k \in Keys, v \in Vals : MkValue(p, k, v)
             /\ hist' = Append(hist, [op |-> "mk", kind |-> "value", par |-> p, key |-> k, val |-> v, dl |-> -1])
       \/ MkVOnly(p) /\ hist' = Append(hist, [op |-> "mk", kind |-> "vonly", par |-> p, key |-> 0, val |-> 0, dl |-> -1])
GCancel ==
  /\ Cardinality(cancelled) < MaxCancels
  /\ \E n \in 1..N : /\ n \notin cancelled /\ Node(n).kind \in {"cancel", "deadline"} /\ Node(n).err = "none"
                     /\ CancelNode(n)
                     /\ hist' = Append(hist, [op |-> "cancel", n |-> n])
GNext == GMk \/ GCancel
GSpec == GInit /\ [][GNext]_gvars

View == cvars
Full == N = MaxNodes /\ (NeedVOnly => VOnlyNodes # {})
PrintHist == (Emit /\ Full /\ (Cardinality(cancelled) = MaxCancels \/ ~ENABLED GCancel)) =>
                PrintT("TRACE " \o ToJson(hist))
Props == CTypeOK /\ Detached /\ ValuesKept(Keys) /\ ParentEndsChild /\ DeadlineShrinks /\ PassedMeansEnded
         /\ EndedForAReason
=============================================================================
