SPECIFICATION ISpec
CONSTANTS
  K = 2
  Waiters = {1}
  WgWorkers = 0
  Variant = "addinside"
  Mode = "free"
  Emit = FALSE
  MinCmd = 0
INVARIANTS Refines
VIEW View
CHECK_DEADLOCK FALSE
