SPECIFICATION ISpec
CONSTANTS
  Procs = {1, 2}
  MaxGets = 2
  MaxNow = 4
  Ival = 1
  Variant = "norecheck"
  Findings = {}
INVARIANTS Refines
CHECK_DEADLOCK FALSE
