---------------------------- MODULE ImmutableTrace ----------------------------
(* Trace validation: events recorded from the real syncx.ImmutableResource (Gets in one goroutine or several, the
   virtual clock hook and the fetch function logging from inside the library) must be a behaviour of
   Immutable.tla.  Unlogged: Store(p), Lin(p) (TLC searches for a placement); clk / fetchStart do not know which
   Get they run in, TLC picks one.  The deviations of the two known findings are enabled by the runner through
   OpenFindings, only for a trace that was rejected without them.  No action for "stuck".                      *)
EXTENDS Immutable, TraceKit

VARIABLE l
tvars == <<imvars, l>>

E == Trace[l]
IsEvent(e) == l <= Len(Trace) /\ E.e = e /\ l' = l + 1
KF == OpenFindings
P == DOMAIN gets

TReset      == IsEvent("reset")      /\ E.m = "imm" /\ IReset(E.now, E.ival)
TTick       == IsEvent("tick")       /\ TickOK(E.now) /\ TickEff(E.now)
TGetStart   == IsEvent("getStart")   /\ GetStartOK(E.p) /\ GetStartEff(E.p)
TClk        == IsEvent("clk")        /\ \E p \in P : ClkOK(p, E.now) /\ ClkEff(p, E.now)
TFetchStart == IsEvent("fetchStart") /\ \E p \in P : FetchStartOK(p, E.n, KF) /\ FetchStartEff(p, E.n, KF)
TFetchEnd   == IsEvent("fetchEnd")   /\ \E p \in P : FetchEndOK(p, E.n, E.r, E.err) /\ FetchEndEff(p, E.r, E.err)
TGetEnd     == IsEvent("getEnd")     /\ GetEndOK(E.p, E.r, E.err, KF) /\ GetEndEff(E.p)
TStore      == l <= Len(Trace) /\ UNCHANGED l /\ \E p \in P : StoreOK(p, KF) /\ StoreEff(p)
TLin        == l <= Len(Trace) /\ UNCHANGED l /\ \E p \in P : LinOK(p, KF) /\ LinEff(p)

TInit == IStart /\ l = 1
TNext == TReset \/ TTick \/ TGetStart \/ TClk \/ TFetchStart \/ TFetchEnd \/ TGetEnd \/ TStore \/ TLin
TSpec == TInit /\ [][TNext]_tvars

HW == HighWater(l)
=============================================================================
