----------------------------- MODULE AtomicsMC -----------------------------
(* The linearizable objects of Atomics.tla on their own: processes that call the object as its doc comments
   allow (a SpinLock is unlocked by its holder, a RefResource is cleaned by a holder of a reference), every
   interleaving of starts, linearization points, callbacks and ends.  Checked exhaustively for every kind for small
   constants: the classic consequences hold (mutual exclusion, exactly one winner, the clean function runs
   once, one generation per breakage, no Add is lost, a waiter on Done() returns only after Close) and no
   action is dead.

   OneAtATime = TRUE: one call at a time (the processes take turns); the history of completed calls
   [p, op, a, b, res] is kept in hist and printed once per distinct (object state, ownership, last call -- last two
   calls for the kinds in Deep, whose calls leave more behind than the state shows: a lock left locked, ...) --
   the sequential histories the Go driver replays.                                                            *)
EXTENDS Atomics, Json

CONSTANTS KSet, Procs, MaxOps, OneAtATime, Emit
Deep == {"spin", "done", "barrier", "ref", "managed"}

VARIABLES
  s0,     \* the initial value (abool / adur / afloat)
  nops,   \* calls started so far
  own,    \* ghost: spin: processes holding the lock; ref: process |-> references held; others: unused
  wins,   \* ghost: once: successful takes; managed: MarkBroken calls that hit; afloat: sum of the Adds that took effect
          \*        since the last Set / successful CompareAndSwap, plus that value; others: unused
  hist, last

mvars == <<avars, s0, nops, own, wins, hist, last>>

Own0(k) == IF k = "ref" THEN [p \in Procs |-> 0] ELSE {}
S0s(k) == IF k = "abool" THEN {0, 1} ELSE IF k \in {"adur", "afloat"} THEN {1} ELSE {0}
MInit == \E k \in KSet : \E v \in S0s(k) :
           /\ AStart(k, St0(k, v)) /\ s0 = v /\ nops = 0 /\ own = Own0(k)
           /\ wins = (IF k = "afloat" THEN v ELSE 0) /\ hist = <<>> /\ last = <<>>

Args(k, op) ==
  CASE k = "abool" /\ op = "cas" -> {<<0, 0>>, <<0, 1>>, <<1, 0>>, <<1, 1>>}
    [] k = "abool" /\ op = "set" -> {<<0, 0>>, <<1, 0>>}
    [] k \in {"adur", "afloat"} /\ op = "cas" -> {<<1, 2>>, <<2, 1>>, <<2, 2>>, <<3, 0>>}
    [] k \in {"adur", "afloat"} /\ op = "set" -> {<<2, 0>>, <<0, 0>>}
    [] op = "add" -> {<<1, 0>>, <<2, 0>>}
    [] op = "broken" -> {<<i, 0>> : i \in 0..MaxOps}
    [] OTHER -> {<<0, 0>>}

MayCall(p, op) ==
  CASE kind = "spin" -> IF op = "unlock" THEN p \in own ELSE p \notin own
    [] kind = "ref" -> IF op = "clean" THEN own[p] > 0 \/ st.cleaned ELSE TRUE
    [] OTHER -> TRUE

CallStart(p) ==
  /\ nops < MaxOps /\ (OneAtATime => pend = EmptyFn)
  /\ \E op \in Ops(kind) : \E ab \in Args(kind, op) :
       /\ MayCall(p, op) /\ (op = "broken" => ab[1] \in aux \cup {0})
       /\ CallStartOK(p, op) /\ CallStartEff(p, op, ab[1], ab[2])
       /\ own' = CASE kind = "spin" /\ op = "unlock" -> own \ {p}
                   [] kind = "ref" /\ op = "clean" /\ own[p] > 0 -> [own EXCEPT ![p] = @ - 1]
                   [] OTHER -> own
  /\ nops' = nops + 1 /\ UNCHANGED <<s0, wins, hist, last>>

Lin(p) ==
  /\ LinOK(p) /\ LinEff(p)
  /\ wins' = CASE kind = "managed" /\ pend[p].op = "broken" /\ st = pend[p].a /\ st # 0 -> wins + 1
               [] kind = "afloat" /\ pend[p].op = "add" -> wins + pend[p].a
               [] kind = "afloat" /\ pend[p].op = "set" -> pend[p].a
               [] kind = "afloat" /\ pend[p].op = "cas" /\ st = pend[p].a -> pend[p].b
               [] OTHER -> wins
  /\ UNCHANGED <<s0, nops, own, hist, last>>

Enter(p) == EnterOK(p) /\ EnterEff(p) /\ UNCHANGED <<s0, nops, own, wins, hist, last>>
Exit(p) == \E out \in {"ret", "panic"} : ExitOK(p, out) /\ ExitEff(p, out) /\ UNCHANGED <<s0, nops, own, wins, hist, last>>
CleanRun(p) == CleanRunOK(p) /\ CleanRunEff(p) /\ UNCHANGED <<s0, nops, own, wins, hist, last>>
Gen(p) == GenOK(p, Cardinality(aux) + 1) /\ GenEff(p, Cardinality(aux) + 1) /\ UNCHANGED <<s0, nops, own, wins, hist, last>>

CallEnd(p) ==
  /\ p \in DOMAIN pend /\ CallEndOK(p, pend[p].res) /\ CallEndEff(p)
  /\ own' = CASE kind = "spin" /\ (pend[p].op = "lock" \/ (pend[p].op = "trylock" /\ pend[p].res = 1)) -> own \cup {p}
              [] kind = "ref" /\ pend[p].op = "use" /\ pend[p].res = 0 -> [own EXCEPT ![p] = @ + 1]
              [] OTHER -> own
  /\ wins' = IF kind = "once" /\ pend[p].op = "take" /\ pend[p].res = 1 THEN wins + 1 ELSE wins
  /\ last' = (LET t == <<p, pend[p].op, pend[p].a, pend[p].b, pend[p].res>>
               IN IF OneAtATime /\ kind \in Deep /\ Len(last) > 0 THEN <<last[Len(last)], t>> ELSE <<t>>)
  /\ hist' = IF OneAtATime
               THEN Append(hist, [p |-> p, op |-> pend[p].op, a |-> pend[p].a, b |-> pend[p].b, res |-> pend[p].res])
               ELSE hist
  /\ UNCHANGED <<s0, nops>>

MNext == \E p \in Procs : CallStart(p) \/ Lin(p) \/ Enter(p) \/ Exit(p) \/ CleanRun(p) \/ Gen(p) \/ CallEnd(p)
MSpec == MInit /\ [][MNext]_mvars

\* ---- the classic consequences ----
MutualExclusion == kind = "spin" => Cardinality(own) <= 1
OneWinner == kind = "once" => (wins <= 1 /\ (wins = 1 => st = 1))
CleanOnce == kind = "ref" => (aux <= 1 /\ (st.cleaned <=> aux = 1))
RefCount == (kind = "ref" /\ pend = EmptyFn /\ ~st.cleaned) =>
               st.ref = (LET S[Q \in SUBSET Procs] == IF Q = {} THEN 0 ELSE LET x == CHOOSE x \in Q : TRUE IN own[x] + S[Q \ {x}]
                         IN S[Procs])
OnePerBreakage == kind = "managed" => Cardinality(aux) <= wins + 1
NoLostAdd == kind = "afloat" => st = wins
DoneSticks == kind = "done" => /\ st \in {0, 1}
                               /\ \A p \in DOMAIN pend : (pend[p].op = "wait" /\ pend[p].lin) => st = 1

View == <<avars, last, IF OneAtATime THEN 0 ELSE nops, own, IF kind \in {"managed", "afloat"} THEN 0 ELSE wins>>
PrintHist == (Emit /\ OneAtATime /\ pend = EmptyFn /\ Len(hist) > 0) =>
               PrintT("TRACE " \o ToJson([kind |-> kind, s0 |-> s0, ops |-> hist]))
=============================================================================
