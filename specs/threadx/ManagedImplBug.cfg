SPECIFICATION ISpec
CONSTANTS
  Procs = {1, 2}
  MaxOps = 3
  Variant = "norecheck"
INVARIANTS Refines
CHECK_DEADLOCK FALSE
