SPECIFICATION MSpec
CONSTANTS
  Procs = {1, 2}
  MaxGets = 3
  MaxNow = 4
  Ivals = {0, 2}
  Steps = {1}
  KFs = {}
  OneAtATime = FALSE
  Emit = FALSE
INVARIANTS ITypeOK PairOK OneFetch Answer NoStuckGet
PROPERTY Immutable
VIEW View
CHECK_DEADLOCK FALSE
