SPECIFICATION ISpec
CONSTANTS
  Procs = {1, 2}
  MaxGets = 2
  MaxNow = 1
  Ival = 1
  Variant = "asis"
  Findings = {}
INVARIANTS Refines
CHECK_DEADLOCK FALSE
