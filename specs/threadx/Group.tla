------------------------------- MODULE Group -------------------------------
(* Layer P (extension "stablerunner", host C05): goroutine groups and panic containment of
   core/threading -- RoutineGroup (Run / RunSafe / Wait), WorkerGroup (Start), GoSafe, RunSafe.

     "A RoutineGroup is used to group goroutines together and all wait all goroutines to be done."
     "RunSafe runs the given fn in RoutineGroup, and avoid panics."   "Wait waits all running functions to be done."
     "GoSafe runs the given fn using another goroutine, recovers if fn panics."
     "RunSafe runs the given fn, recovers if fn panics."
     "A WorkerGroup is used to run given number of workers to process jobs."  (Start returns when they are done)

   Events (fn / job are harness callbacks; every spawned function has an id i):
     spawnStart(i, how)   BEFORE the library is asked; how: "run" (RoutineGroup.Run), "runsafe" (RoutineGroup.RunSafe),
                          "gosafe" (GoSafe), "sync" (RunSafe, synchronous)
     spawnEnd(i)          AFTER that call returned
     fStart(i)            first statement of the function
     fEnd(i, out)         last statement of the function: it is about to return (out = "ret") or to panic ("panic")
     waitStart(w) / waitEnd(w)     around RoutineGroup.Wait, waiter w
     wgStart(k, workers) / wgEnd(k)   around WorkerGroup.Start
     jStart(k, j) / jEnd(k, j, out)   the job of WorkerGroup k, j-th invocation (counted by the harness)

   What is demanded:
     ExactlyOnce    a spawned function starts at most once, and only after its spawn call began
     WaitCovers     Wait returns only when every function whose Run/RunSafe call had returned before Wait was
                    called has finished (by return or by a contained panic)
     Sync           the synchronous RunSafe returns only after its function has finished, and it does return
                    when the function panics (the event after a panic is the proof that it was contained)
     Workers        WorkerGroup.Start returns only when exactly `workers` jobs were started and all have finished
     Contained      a panic is only ever raised in a function spawned through a recovering entry point (premise of
                    the driver); whatever follows in the trace shows the process survived
   Nothing here mentions wait groups or goroutines.                                                        *)
EXTENDS Integers, Sequences, FiniteSets, TLC

VARIABLES
  fn,      \* function id |-> [how, st]   st: "calling" | "spawned" (the spawn call returned)
  fst,     \* function id |-> "run" | "done"
  wt,      \* waiter |-> set of function ids its Wait must cover (pending Wait calls only)
  wk       \* worker group |-> [workers, started, ended, open]

gvars == <<fn, fst, wt, wk>>
EmptyFn == [x \in {} |-> 0]
Hows == {"run", "runsafe", "gosafe", "sync"}
Recovering == {"runsafe", "gosafe", "sync"}
Put(f, x, y) == [z \in DOMAIN f \cup {x} |-> IF z = x THEN y ELSE f[z]]
Drop(f, x) == [z \in DOMAIN f \ {x} |-> f[z]]

GStart == fn = EmptyFn /\ fst = EmptyFn /\ wt = EmptyFn /\ wk = EmptyFn
GReset == fn' = EmptyFn /\ fst' = EmptyFn /\ wt' = EmptyFn /\ wk' = EmptyFn

SpawnStartOK(i, how) == i \notin DOMAIN fn /\ how \in Hows
SpawnStartEff(i, how) == fn' = Put(fn, i, [how |-> how, st |-> "calling"]) /\ UNCHANGED <<fst, wt, wk>>

SpawnEndOK(i) ==
  /\ i \in DOMAIN fn /\ fn[i].st = "calling"
  /\ fn[i].how = "sync" => (i \in DOMAIN fst /\ fst[i] = "done")          \* Sync
SpawnEndEff(i) == fn' = [fn EXCEPT ![i].st = "spawned"] /\ UNCHANGED <<fst, wt, wk>>

FStartOK(i) == i \in DOMAIN fn /\ i \notin DOMAIN fst                      \* ExactlyOnce
FStartEff(i) == fst' = Put(fst, i, "run") /\ UNCHANGED <<fn, wt, wk>>

FEndOK(i, out) ==
  /\ i \in DOMAIN fst /\ fst[i] = "run" /\ out \in {"ret", "panic"}
  /\ out = "panic" => fn[i].how \in Recovering                             \* Contained (premise)
FEndEff(i) == fst' = [fst EXCEPT ![i] = "done"] /\ UNCHANGED <<fn, wt, wk>>

InGroup(i) == fn[i].how \in {"run", "runsafe"}
WaitStartOK(w) == w \notin DOMAIN wt
WaitStartEff(w) ==
  /\ wt' = Put(wt, w, {i \in DOMAIN fn : InGroup(i) /\ fn[i].st = "spawned"})
  /\ UNCHANGED <<fn, fst, wk>>
WaitEndOK(w) ==
  /\ w \in DOMAIN wt
  /\ \A i \in wt[w] : i \in DOMAIN fst /\ fst[i] = "done"                  \* WaitCovers
WaitEndEff(w) == wt' = Drop(wt, w) /\ UNCHANGED <<fn, fst, wk>>

WgStartOK(k, workers) == k \notin DOMAIN wk /\ workers >= 0
WgStartEff(k, workers) ==
  /\ wk' = Put(wk, k, [workers |-> workers, started |-> {}, ended |-> {}, open |-> TRUE])
  /\ UNCHANGED <<fn, fst, wt>>
JStartOK(k, j) ==
  /\ k \in DOMAIN wk /\ wk[k].open /\ j \notin wk[k].started
  /\ Cardinality(wk[k].started) < wk[k].workers                            \* Workers (no more than asked)
JStartEff(k, j) == wk' = [wk EXCEPT ![k].started = @ \cup {j}] /\ UNCHANGED <<fn, fst, wt>>
JEndOK(k, j, out) == k \in DOMAIN wk /\ j \in wk[k].started \ wk[k].ended /\ out \in {"ret", "panic"}
JEndEff(k, j) == wk' = [wk EXCEPT ![k].ended = @ \cup {j}] /\ UNCHANGED <<fn, fst, wt>>
WgEndOK(k) ==
  /\ k \in DOMAIN wk /\ wk[k].open
  /\ Cardinality(wk[k].started) = wk[k].workers /\ wk[k].ended = wk[k].started   \* Workers (all, finished)
WgEndEff(k) == wk' = [wk EXCEPT ![k].open = FALSE] /\ UNCHANGED <<fn, fst, wt>>

\* ---- sanity invariants of the abstract machine ----
GTypeOK ==
  /\ DOMAIN fst \subseteq DOMAIN fn
  /\ \A i \in DOMAIN fn : fn[i].how \in Hows /\ fn[i].st \in {"calling", "spawned"}
  /\ \A k \in DOMAIN wk : wk[k].ended \subseteq wk[k].started /\ Cardinality(wk[k].started) <= wk[k].workers
SyncDone == \A i \in DOMAIN fn : (fn[i].how = "sync" /\ fn[i].st = "spawned") => (i \in DOMAIN fst /\ fst[i] = "done")
=============================================================================
