SPECIFICATION ISpec
CONSTANTS
  K = 2
  Waiters = {1}
  WgWorkers = 2
  Variant = "ok"
  Mode = "rtc"
  Emit = TRUE
  MinCmd = 6
INVARIANTS Refines PrintHist
VIEW View
CHECK_DEADLOCK FALSE
