SPECIFICATION ISpec
CONSTANTS
  Procs = {1, 2, 3}
  MaxOps = 5
  Variant = "ok"
INVARIANTS Refines Agree ATypeOK DeadEndsAreComplete
CHECK_DEADLOCK FALSE
