SPECIFICATION ISpec
CONSTANTS
  Procs = {1, 2, 3}
  MaxGets = 3
  MaxNow = 3
  Ival = 1
  Variant = "mutex"
  Findings = {}
INVARIANTS Refines Agree ITypeOK Clean DeadEndsAreComplete
PROPERTY Immutable
CHECK_DEADLOCK FALSE
