SPECIFICATION ISpec
CONSTANTS
  Procs = {1, 2}
  MaxGets = 3
  MaxNow = 3
  Ival = 1
  Variant = "asis"
  Findings = {"KF_ImmSkipDuringFetch", "KF_ImmOverlappingFetch"}
INVARIANTS Refines Agree ITypeOK
CHECK_DEADLOCK FALSE
