-------------------------- MODULE StableRunnerTrace --------------------------
(* Trace validation: events recorded from the real threading.StableRunner must be a behaviour
   of StableRunner.tla.  One action per event kind = Layer-P guard /\ effect.  The only
   unlogged step is Take (the instant inside Get at which the result leaves the buffer); it is
   a silent action, enabled at most once per Get, so the search has at most two states per line.
   There is deliberately no action for the driver's "stuck" event (an expected event did not
   show up under a generous watchdog): such a trace is rejected.                            *)
EXTENDS StableRunner, TraceKit

VARIABLE l
tvars == <<srvars, l>>

E == Trace[l]
IsEvent(e) == l <= Len(Trace) /\ E.e = e /\ l' = l + 1

TReset     == IsEvent("reset")     /\ E.m = "sr" /\ SRReset(E.n, E.c)
TPushStart == IsEvent("pushStart") /\ PushStartOK(E.v) /\ PushStartEff(E.v)
TPushEnd   == IsEvent("pushEnd")   /\ E.code \in {0, 1} /\ PushEndOK(E.v, E.code = 1) /\ PushEndEff
THStart    == IsEvent("hStart")    /\ HStartOK(E.v) /\ HStartEff(E.v)
THEnd      == IsEvent("hEnd")      /\ HEndOK(E.v) /\ HEndEff(E.v, E.o)
TGetStart  == IsEvent("getStart")  /\ GetStartOK /\ GetStartEff
TGetEnd    == IsEvent("getEnd")    /\ E.code \in {0, 1} /\ GetEndOK(E.o, E.code = 1) /\ GetEndEff
TWaitStart == IsEvent("waitStart") /\ WaitStartOK /\ WaitStartEff
TWaitEnd   == IsEvent("waitEnd")   /\ WaitEndOK /\ WaitEndEff
TTake      == l <= Len(Trace) /\ TakeOK /\ TakeEff /\ UNCHANGED l

TInit == SRStart(1, 1) /\ l = 1
TNext == \/ TReset \/ TPushStart \/ TPushEnd \/ THStart \/ THEnd \/ TGetStart \/ TGetEnd
         \/ TWaitStart \/ TWaitEnd \/ TTake
TSpec == TInit /\ [][TNext]_tvars

HW == HighWater(l)
=============================================================================
