SPECIFICATION ISpec
CONSTANTS
  N = 1
  C = 2
  MaxPush = 3
  MaxGet = 4
  Variant = "nolock"
  Mode = "free"
  Emit = FALSE
  MinCmd = 96
  MaxCmd = 99
INVARIANTS Refines
VIEW View
CHECK_DEADLOCK FALSE
