----------------------------- MODULE AtomicsTrace -----------------------------
(* Trace validation: call/return histories recorded from the real core/syncx objects (one goroutine or
   several racing) must be linearizable with respect to Atomics.tla.  The linearization point Lin(p) is a
   silent action (TLC searches for a placement); the callback events cleanRun and gen do not know which
   call they run in, TLC picks the process.  No action for "stuck" (a call that did not come back: e.g. a
   Lock on a free SpinLock, a Guard on a Barrier a panicking function left locked, a receive from Done() after
   Close).                                                                                            *)
EXTENDS Atomics, TraceKit

VARIABLE l
tvars == <<avars, l>>

E == Trace[l]
IsEvent(e) == l <= Len(Trace) /\ E.e = e /\ l' = l + 1
Procs == DOMAIN pend

TReset     == IsEvent("reset")     /\ E.m = "atom" /\ E.kind \in Kinds
                                   /\ AReset(E.kind, St0(E.kind, E.s0))
TCallStart == IsEvent("callStart") /\ CallStartOK(E.p, E.op) /\ CallStartEff(E.p, E.op, E.a, E.b)
TCallEnd   == IsEvent("callEnd")   /\ CallEndOK(E.p, E.res) /\ CallEndEff(E.p)
TEnter     == IsEvent("enter")     /\ EnterOK(E.p) /\ EnterEff(E.p)
TExit      == IsEvent("exit")      /\ ExitOK(E.p, E.out) /\ ExitEff(E.p, E.out)
TCleanRun  == IsEvent("cleanRun")  /\ \E p \in Procs : CleanRunOK(p) /\ CleanRunEff(p)
TGen       == IsEvent("gen")       /\ \E p \in Procs : GenOK(p, E.id) /\ GenEff(p, E.id)
TLin       == l <= Len(Trace) /\ UNCHANGED l /\ \E p \in Procs : LinOK(p) /\ LinEff(p)

TInit == AStart("once", 0) /\ l = 1
TNext == TReset \/ TCallStart \/ TCallEnd \/ TEnter \/ TExit \/ TCleanRun \/ TGen \/ TLin
TSpec == TInit /\ [][TNext]_tvars

HW == HighWater(l)
=============================================================================
