------------------------------- MODULE CondGen -------------------------------
(* Generation for Cond (spec -> code): every sequential environment script of at most D steps.
     [op |-> "signal"]                       one Signal, whoever is there (lost when nobody is)
     [op |-> "wait", p, mode, to, real]      start waiter p in its own goroutine; mode "wait" | "timed";
                                             to = timeout in clock units; real = "long" (the real timer is hours
                                             away: only a signal ends it) | "short" (1 ms: it will time out)
     [op |-> "tick", d]                      move the virtual clock by d units
     [op |-> "wake"]                         signal until one of the parked waiters is back
     [op |-> "expire", p]                    wait until the short waiter p has timed out
   The script only steers; what the real Cond answers is validated by TLC against Cond.tla.          *)
EXTENDS Integers, Sequences, FiniteSets, TLC, Json

CONSTANTS D, MaxW

VARIABLES parked, short, nw, hist
gvars == <<parked, short, nw, hist>>
GInit == parked = 0 /\ short = {} /\ nw = 0 /\ hist = <<>>

Signal == parked = 0 /\ UNCHANGED <<parked, short, nw>> /\ hist' = Append(hist, [op |-> "signal"])
WaitLong == nw < MaxW /\ \E m \in {"wait", "timed"} :
              /\ nw' = nw + 1 /\ parked' = parked + 1 /\ UNCHANGED short
              /\ hist' = Append(hist, [op |-> "wait", p |-> nw + 1, mode |-> m, to |-> 3600000, real |-> "long"])
WaitShort == nw < MaxW /\ nw' = nw + 1 /\ short' = short \cup {nw + 1} /\ UNCHANGED parked
              /\ hist' = Append(hist, [op |-> "wait", p |-> nw + 1, mode |-> "timed", to |-> 1, real |-> "short"])
Tick == \E d \in {1, 250} : (IF Len(hist) = 0 THEN TRUE ELSE hist[Len(hist)].op # "tick") /\ UNCHANGED <<parked, short, nw>>
              /\ hist' = Append(hist, [op |-> "tick", d |-> d])
Wake == parked > 0 /\ short = {} /\ parked' = parked - 1 /\ UNCHANGED <<short, nw>> /\ hist' = Append(hist, [op |-> "wake"])
Expire == \E p \in short : short' = short \ {p} /\ UNCHANGED <<parked, nw>> /\ hist' = Append(hist, [op |-> "expire", p |-> p])

GNext == Len(hist) < D /\ (Signal \/ WaitLong \/ WaitShort \/ Tick \/ Wake \/ Expire)
GSpec == GInit /\ [][GNext]_gvars
PrintHist == (Len(hist) = D) => PrintT("TRACE " \o ToJson(hist))
=============================================================================
