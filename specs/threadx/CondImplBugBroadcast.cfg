SPECIFICATION ISpec
CONSTANTS
  Waiters = {1, 2}
  Signals = {11}
  MaxTick = 2
  Timeout = 5
  Variant = "broadcast"
INVARIANTS Refines
CHECK_DEADLOCK FALSE
