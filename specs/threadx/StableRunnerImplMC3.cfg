SPECIFICATION ISpec
CONSTANTS
  N = 2
  C = 3
  MaxPush = 6
  MaxGet = 7
  Variant = "ok"
  Mode = "free"
  Emit = FALSE
  MinCmd = 96
  MaxCmd = 99
INVARIANTS Refines ITypeOK Agree DeadEndsAreComplete SRTypeOK CapSafe TakenAreDone StartedHaveRoom WaitedMeansDrained
VIEW View
CHECK_DEADLOCK FALSE
