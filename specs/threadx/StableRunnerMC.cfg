SPECIFICATION PSpec
CONSTANTS
  PN = 1
  PC = 2
  PVals = {1, 2, 3, 4}
INVARIANTS SRTypeOK CapSafe TakenAreDone StartedHaveRoom WaitedMeansDrained
CHECK_DEADLOCK FALSE
