SPECIFICATION TSpec
CONSTRAINT HW
INVARIANTS ITypeOK
POSTCONDITION Accepted
CHECK_DEADLOCK FALSE
