SPECIFICATION TSpec
CONSTRAINT HW
INVARIANTS GTypeOK SyncDone
POSTCONDITION Accepted
CHECK_DEADLOCK FALSE
