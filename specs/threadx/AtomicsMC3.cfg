SPECIFICATION MSpec
CONSTANTS
  KSet = {"spin", "barrier", "ref", "managed"}
  Procs = {1, 2, 3}
  MaxOps = 5
  OneAtATime = FALSE
  Emit = FALSE
INVARIANTS ATypeOK MutualExclusion OneWinner CleanOnce RefCount OnePerBreakage NoLostAdd DoneSticks
VIEW View
CHECK_DEADLOCK FALSE
