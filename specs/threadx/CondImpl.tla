------------------------------ MODULE CondImpl ------------------------------
(* Layer I: core/syncx/cond.go as written (an unbuffered channel) against the guards of Cond.tla.

     WaitWithTimeout(d):  timer := time.NewTimer(d); begin := timex.Now()
                          select { case <-signal: return d - timex.Since(begin), true
                                   case <-timer.C: return 0, false }
     Wait():              <-signal
     Signal():            select { case signal <- x: default: }

   Go's channel semantics: a send in a select with a default case goes through exactly when a receiver is
   already parked on the channel, and it wakes exactly one of them; the timer may fire at any moment while the
   waiter is parked.  Deliver(s, w) of Cond.tla is that rendezvous.
   Variant = "ok" | "buffered"  (make(chan, 1): a Signal nobody waits for is remembered and wakes a later waiter)
                  | "broadcast" (a Signal wakes every parked waiter).                                        *)
EXTENDS Cond

CONSTANTS Waiters, Signals, MaxTick, Timeout, Variant

VARIABLES
  wpc, spc,      \* program counters of waiters / signallers
  b, k,          \* the waiter's locals: begin, clock when woken
  buf,           \* wrong variant "buffered": the remembered signal
  viol

ivars == <<wpc, spc, b, k, buf>>
vars == <<cvars, ivars, viol>>

IInit ==
  /\ CStart /\ wpc = [w \in Waiters |-> "idle"] /\ spc = [s \in Signals |-> "idle"]
  /\ b = [w \in Waiters |-> 0] /\ k = [w \in Waiters |-> 0] /\ buf = 0 /\ viol = ""

Obs(name, ok) == viol' = IF viol = "" /\ ~ok THEN name ELSE viol
Silent == UNCHANGED <<cvars, viol>>
Parked == {w \in Waiters : wpc[w] = "w_park"}
Woke(w) == IF wt[w].mode = "timed" THEN "w_clk2" ELSE "w_ret_ok"

Tick == now < MaxTick /\ TickOK(now + 1) /\ TickEff(now + 1) /\ UNCHANGED <<ivars, viol>>

WStart(w) ==
  /\ wpc[w] = "idle" /\ \E m \in {"wait", "timed"} :
       /\ Obs("waitStart", WaitStartOK(w, m)) /\ WaitStartEff(w, m, Timeout)
       /\ wpc' = [wpc EXCEPT ![w] = IF m = "timed" THEN "w_clk" ELSE "w_park"]
  /\ UNCHANGED <<spc, b, k, buf>>
WClk(w) ==                                                       \* begin := timex.Now()
  /\ wpc[w] = "w_clk" /\ b' = [b EXCEPT ![w] = now] /\ wpc' = [wpc EXCEPT ![w] = "w_park"]
  /\ Obs("clk", ClkOK(w, now)) /\ ClkEff(w, now) /\ UNCHANGED <<spc, k, buf>>
WTakeBuf(w) ==                                                   \* wrong variant: a remembered signal is there
  /\ Variant = "buffered" /\ wpc[w] = "w_park" /\ buf = 1 /\ buf' = 0
  /\ wpc' = [wpc EXCEPT ![w] = Woke(w)]
  /\ Obs("deliver", \E s \in DOMAIN sg : DeliverOK(s, w))
  /\ IF \E s \in DOMAIN sg : DeliverOK(s, w)
       THEN \E s \in DOMAIN sg : DeliverOK(s, w) /\ DeliverEff(s, w)
       ELSE wt' = [wt EXCEPT ![w].woken = TRUE] /\ UNCHANGED <<now, sg>>
  /\ UNCHANGED <<spc, b, k>>
WTimeout(w) ==                                                   \* <-timer.C
  /\ wpc[w] = "w_park" /\ wt[w].mode = "timed" /\ wpc' = [wpc EXCEPT ![w] = "w_ret_to"]
  /\ Silent /\ UNCHANGED <<spc, b, k, buf>>
WClk2(w) ==                                                      \* timex.Since(begin)
  /\ wpc[w] = "w_clk2" /\ k' = [k EXCEPT ![w] = now] /\ wpc' = [wpc EXCEPT ![w] = "w_ret_ok"]
  /\ Obs("clk", ClkOK(w, now)) /\ ClkEff(w, now) /\ UNCHANGED <<spc, b, buf>>
WRet(w) ==
  /\ wpc[w] \in {"w_ret_ok", "w_ret_to"} /\ wpc' = [wpc EXCEPT ![w] = "done"]
  /\ LET ok == wpc[w] = "w_ret_ok"
         remain == IF ok /\ wt[w].mode = "timed" THEN Timeout - (k[w] - b[w]) ELSE 0
     IN Obs("waitEnd", WaitEndOK(w, ok, remain)) /\ WaitEndEff(w)
  /\ UNCHANGED <<spc, b, k, buf>>

SStart(s) ==
  /\ spc[s] = "idle" /\ spc' = [spc EXCEPT ![s] = "s_sel"]
  /\ Obs("sigStart", SigStartOK(s)) /\ SigStartEff(s) /\ UNCHANGED <<wpc, b, k, buf>>
SSelect(s) ==
  /\ spc[s] = "s_sel" /\ spc' = [spc EXCEPT ![s] = "s_end"]
  /\ IF Parked # {}
       THEN IF Variant = "broadcast"
              THEN /\ wpc' = [w \in Waiters |-> IF w \in Parked THEN Woke(w) ELSE wpc[w]]
                   /\ Obs("deliver", Cardinality(Parked) = 1)
                   /\ wt' = [w \in DOMAIN wt |-> IF w \in Parked THEN [wt[w] EXCEPT !.woken = TRUE] ELSE wt[w]]
                   /\ sg' = [sg EXCEPT ![s] = TRUE] /\ UNCHANGED <<now, buf>>
              ELSE \E w \in Parked :                              \* the rendezvous
                   /\ wpc' = [wpc EXCEPT ![w] = Woke(w)]
                   /\ Obs("deliver", DeliverOK(s, w)) /\ DeliverEff(s, w) /\ UNCHANGED buf
       ELSE /\ buf' = (IF Variant = "buffered" THEN 1 ELSE buf)  \* default: (the wrong variant keeps it)
            /\ Silent /\ UNCHANGED wpc
  /\ UNCHANGED <<b, k>>
SEnd(s) ==
  /\ spc[s] = "s_end" /\ spc' = [spc EXCEPT ![s] = "done"]
  /\ Obs("sigEnd", SigEndOK(s)) /\ SigEndEff(s) /\ UNCHANGED <<wpc, b, k, buf>>

INext == \/ Tick
         \/ \E w \in Waiters : WStart(w) \/ WClk(w) \/ WTakeBuf(w) \/ WTimeout(w) \/ WClk2(w) \/ WRet(w)
         \/ \E s \in Signals : SStart(s) \/ SSelect(s) \/ SEnd(s)
ISpec == IInit /\ [][INext]_vars

Refines == viol = ""
\* a waiter on its way out with ok = true was woken by a Signal
NoLostWake == \A w \in Waiters : (wpc[w] \in {"w_clk2", "w_ret_ok"}) => wt[w].woken
=============================================================================
