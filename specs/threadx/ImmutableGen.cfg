SPECIFICATION MSpec
CONSTANTS
  Procs = {1}
  MaxGets = 6
  MaxNow = 14
  Ivals = {0, 2}
  Steps = {1, 2, 3}
  KFs = {}
  OneAtATime = TRUE
  Emit = TRUE
INVARIANTS ITypeOK PrintHist
VIEW View
CHECK_DEADLOCK FALSE
