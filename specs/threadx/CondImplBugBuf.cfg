SPECIFICATION ISpec
CONSTANTS
  Waiters = {1, 2}
  Signals = {11, 12}
  MaxTick = 2
  Timeout = 5
  Variant = "buffered"
INVARIANTS Refines
CHECK_DEADLOCK FALSE
