SPECIFICATION ISpec
CONSTANTS
  Waiters = {1, 2, 3}
  Signals = {11, 12}
  MaxTick = 2
  Timeout = 5
  Variant = "ok"
INVARIANTS Refines CTypeOK NoLostWake
CHECK_DEADLOCK FALSE
