---------------------------- MODULE ImmutableImpl ----------------------------
(* Layer I: core/syncx/immutableresource.go step by step against the guards of Immutable.tla.

     Get():   lock.RLock(); r := resource; lock.RUnlock(); if r != nil { return r, nil }            g_r1
              maybeRefresh: now := timex.Now()                                                        g_clk
                            lt := lastTime.Load()                                                     g_load
                            if lt == 0 || lt + interval < now { lastTime.Set(now); execute() }        g_dec
              execute:      res, err := fetch()                                                       g_fs .. g_fe
                            lock.Lock(); if err != nil { ir.err = err } else { ir.resource, ir.err = res, nil }; Unlock   g_w
              lock.RLock(); r, e := resource, err; lock.RUnlock(); return r, e                        g_r2

   (the RWMutex only makes each of g_r1, g_w, g_r2 atomic; lastTime is an atomic word, 0 = never)

   Variant = "asis"   the code as written.  With Findings = {} TLC finds both defects within a few steps (documented
                      counterexample configs); with the two deviations of Immutable.tla enabled everything the code
                      can do is covered.
           = "mutex"  proposed repair (proposed/ext-syncxobjs-fix.diff): after the fast path Get takes a mutex, looks
                      again, and keeps it until it returns -- fetches are serialized and a Get arriving during a
                      fetch waits for it.  Satisfies Immutable.tla with no deviation.
           = "norecheck"  the repair without the second look under the mutex: a Get that waited fetches again although
                      the resource was loaded meanwhile (wrong).                                              *)
EXTENDS Immutable

CONSTANTS Procs, MaxGets, MaxNow, Ival, Variant, Findings

VARIABLES
  ires, ierr, ilast,   \* fields resource, err, lastTime (0 = never)
  mu,                  \* repair variants: holder of the mutex (0 = free)
  pc, loc,             \* per process: program counter; locals [tp, lt, fr, fe, rr, re]
  ngets, nfetch, viol

ivars == <<ires, ierr, ilast, mu, pc, loc, ngets, nfetch>>
vars == <<imvars, ivars, viol>>

L0 == [tp |-> 0, lt |-> 0, fr |-> 0, fe |-> 0, rr |-> 0, re |-> 0]
IInit ==
  /\ now = 1 /\ ival = Ival /\ res = 0 /\ err = 0 /\ last = {} /\ gets = EmptyFn /\ fetching = {}
  /\ ires = 0 /\ ierr = 0 /\ ilast = 0 /\ mu = 0
  /\ pc = [p \in Procs |-> "idle"] /\ loc = [p \in Procs |-> L0]
  /\ ngets = 0 /\ nfetch = 0 /\ viol = ""

Obs(name, ok) == viol' = IF viol = "" /\ ~ok THEN name ELSE viol
Silent == UNCHANGED <<imvars, viol>>
Go(p, to) == pc' = [pc EXCEPT ![p] = to]
Locked == Variant \in {"mutex", "norecheck"}

Tick == now < MaxNow /\ TickOK(now + 1) /\ TickEff(now + 1) /\ UNCHANGED <<ivars, viol>>

GStart(p) ==
  /\ pc[p] = "idle" /\ ngets < MaxGets /\ ngets' = ngets + 1 /\ Go(p, "g_r1") /\ loc' = [loc EXCEPT ![p] = L0]
  /\ Obs("getStart", GetStartOK(p)) /\ GetStartEff(p)
  /\ UNCHANGED <<ires, ierr, ilast, mu, nfetch>>
\* fast path
GRead1(p) ==
  /\ pc[p] = "g_r1"
  /\ IF ires # 0
       THEN /\ loc' = [loc EXCEPT ![p].rr = ires, ![p].re = 0] /\ Go(p, "g_ret")
            /\ Obs("lin", LinOK(p, Findings)) /\ LinEff(p)
       ELSE /\ Go(p, IF Locked THEN "g_lock" ELSE "g_clk") /\ Silent /\ UNCHANGED loc
  /\ UNCHANGED <<ires, ierr, ilast, mu, ngets, nfetch>>
\* repair variants: take the mutex, look again
GLock(p) ==
  /\ pc[p] = "g_lock" /\ mu = 0 /\ mu' = p /\ Go(p, IF Variant = "mutex" THEN "g_r1b" ELSE "g_clk")
  /\ Silent /\ UNCHANGED <<ires, ierr, ilast, loc, ngets, nfetch>>
GRead1b(p) ==
  /\ pc[p] = "g_r1b"
  /\ IF ires # 0
       THEN /\ loc' = [loc EXCEPT ![p].rr = ires, ![p].re = 0] /\ Go(p, "g_unlock")
            /\ Obs("lin", LinOK(p, Findings)) /\ LinEff(p)
       ELSE /\ Go(p, "g_clk") /\ Silent /\ UNCHANGED loc
  /\ UNCHANGED <<ires, ierr, ilast, mu, ngets, nfetch>>
\* maybeRefresh
GClk(p) ==
  /\ pc[p] = "g_clk" /\ loc' = [loc EXCEPT ![p].tp = now] /\ Go(p, "g_load")
  /\ Obs("clk", ClkOK(p, now)) /\ ClkEff(p, now)
  /\ UNCHANGED <<ires, ierr, ilast, mu, ngets, nfetch>>
GLoad(p) ==
  /\ pc[p] = "g_load" /\ loc' = [loc EXCEPT ![p].lt = ilast] /\ Go(p, "g_dec")
  /\ Silent /\ UNCHANGED <<ires, ierr, ilast, mu, ngets, nfetch>>
GDecide(p) ==
  /\ pc[p] = "g_dec"
  /\ IF loc[p].lt = 0 \/ loc[p].lt + Ival < loc[p].tp
       THEN ilast' = loc[p].tp /\ Go(p, "g_fs")
       ELSE ilast' = ilast /\ Go(p, "g_r2")
  /\ Silent /\ UNCHANGED <<ires, ierr, mu, loc, ngets, nfetch>>
\* execute: the fetch function (harness), then the store
GFetchStart(p) ==
  /\ pc[p] = "g_fs" /\ nfetch' = nfetch + 1 /\ Go(p, "g_fe")
  /\ Obs("fetchStart", FetchStartOK(p, nfetch + 1, Findings)) /\ FetchStartEff(p, nfetch + 1, Findings)
  /\ UNCHANGED <<ires, ierr, ilast, mu, loc, ngets>>
GFetchEnd(p) ==
  /\ pc[p] = "g_fe" /\ Go(p, "g_w")
  /\ \E o \in {0, 1, 2} :
       LET r == IF o = 0 THEN gets[p].n ELSE 0 IN
       /\ loc' = [loc EXCEPT ![p].fr = r, ![p].fe = o]
       /\ Obs("fetchEnd", FetchEndOK(p, gets[p].n, r, o)) /\ FetchEndEff(p, r, o)
  /\ UNCHANGED <<ires, ierr, ilast, mu, ngets, nfetch>>
GWrite(p) ==
  /\ pc[p] = "g_w" /\ Go(p, "g_r2")
  /\ IF loc[p].fe # 0 THEN ierr' = loc[p].fe /\ ires' = ires ELSE ires' = loc[p].fr /\ ierr' = 0
  /\ Obs("store", StoreOK(p, Findings)) /\ StoreEff(p)
  /\ UNCHANGED <<ilast, mu, loc, ngets, nfetch>>
\* the answer
GRead2(p) ==
  /\ pc[p] = "g_r2" /\ loc' = [loc EXCEPT ![p].rr = ires, ![p].re = ierr]
  /\ Go(p, IF Locked THEN "g_unlock" ELSE "g_ret")
  /\ Obs("lin", LinOK(p, Findings)) /\ LinEff(p)
  /\ UNCHANGED <<ires, ierr, ilast, mu, ngets, nfetch>>
GUnlock(p) ==
  /\ pc[p] = "g_unlock" /\ mu' = 0 /\ Go(p, "g_ret")
  /\ Silent /\ UNCHANGED <<ires, ierr, ilast, loc, ngets, nfetch>>
GRet(p) ==
  /\ pc[p] = "g_ret" /\ Go(p, "idle")
  /\ Obs("getEnd", GetEndOK(p, loc[p].rr, loc[p].re, Findings)) /\ GetEndEff(p)
  /\ UNCHANGED <<ires, ierr, ilast, mu, loc, ngets, nfetch>>

INext == Tick \/ \E p \in Procs :
  \/ GStart(p) \/ GRead1(p) \/ GLock(p) \/ GRead1b(p) \/ GClk(p) \/ GLoad(p) \/ GDecide(p)
  \/ GFetchStart(p) \/ GFetchEnd(p) \/ GWrite(p) \/ GRead2(p) \/ GUnlock(p) \/ GRet(p)
ISpec == IInit /\ [][INext]_vars

Refines == viol = ""
Agree == ires = res /\ ierr = err
\* the repaired code never shows what the deviations describe
Clean == PairOK /\ OneFetch /\ Answer
Immutable == [][ires # 0 => ires' = ires]_vars
DeadEndsAreComplete == ~ENABLED INext => (\A p \in Procs : pc[p] = "idle") /\ mu = 0
=============================================================================
