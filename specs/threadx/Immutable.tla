------------------------------ MODULE Immutable ------------------------------
(* Layer P (extension "syncxobjs", host C05): core/syncx.ImmutableResource on the virtual clock.

     "An ImmutableResource is used to manage an immutable resource."
     "Get gets the immutable resource, fetches automatically if not loaded."
     "WithRefreshIntervalOnFailure sets refresh interval on failure.  Set interval to 0 to enforce refresh every
      time if not succeeded, default is time.Second."
     immutableresource_test.go: a loaded resource is returned again without another fetch; a failed fetch is
     answered again (same error, no fetch) until the interval has passed, then the next Get fetches again.

   Events (the clock is the hook timex.VerifNow, a harness function that logs every read; fetch is a harness
   function that logs its first and last statement and returns what the driver decided):
     tick(now)            the driver moved the virtual clock
     getStart(p)          BEFORE Get is called by process p
     clk(now)             the library read the clock (inside some Get in progress)
     fetchStart(n)        the n-th call of the fetch function began (inside some Get in progress)
     fetchEnd(n, r, e)    ... returns resource r (0 = nil) and error e (0 = nil); exactly one of them is set
     getEnd(p, r, e)      AFTER Get returned (r, e)
   Unlogged: Store(p) -- the outcome of p's fetch takes effect (between fetchEnd and getEnd);
             Lin(p)   -- the instant at which the answer of Get is determined.

   What is demanded:
     Loaded      once a fetch has succeeded, every Get answers that resource with a nil error, and no fetch is
                 started any more; the resource is never replaced                            (immutable, loaded once)
     Cached      while nothing is loaded, a Get whose clock reading is less than the interval after the reading
                 of the last fetching Get does not fetch and answers (nil, the cached error); one whose reading is
                 more than the interval later (or the very first) fetches; exactly at the interval both are
                 admitted ("interval 0 = every time" vs. the code's strict comparison)
     Answer      a Get answers a resource or an error -- never (nil, nil), never both
     OneFetch    fetches do not overlap: a Get arriving while another Get's fetch is in flight does not start a
                 second one, and (unless it can answer a cached error that is still valid) its answer is determined
                 only after that fetch took effect

   Known findings (deviation actions, enabled by the runner only for a trace that was rejected without them; KF =
   the set of enabled names).  Both need Gets that overlap in time; sequential use never meets them.
     KF_ImmSkipDuringFetch    a Get that overlaps another Get which is between reading the clock and returning (about
                              to fetch / fetching / storing) neither waits for it nor fetches: it answers (nil, whatever
                              error is cached) -- (nil, nil) when no fetch ever failed before.
     KF_ImmOverlappingFetch   two fetches overlap (the clock passes the interval while a slow fetch is in flight, or two
                              Gets read lastTime before either writes it); the later store wins: a loaded resource is
                              REPLACED, or an error is stored next to a loaded resource and a Get answers both.    *)
EXTENDS Integers, Sequences, FiniteSets, TLC

VARIABLES
  now, ival,   \* virtual clock; refresh interval on failure
  res, err,    \* the loaded resource (0 = none); the cached error (0 = none)
  last,        \* clock reading(s) of the Get that last started a fetch ({} = no fetch yet); one value, unless that Get
               \* read the clock again after its fetch began, or fetches overlapped (deviation): then every reading
               \* that may be the one the library kept
  gets,        \* Gets in progress: p |-> [t, f, n, fr, fe, ov, lin, r, e]
               \*   t  clock reading (-1 = none yet)     f  "no" | "run" | "got" | "done" (its own fetch)
               \*   n  number of its fetch   fr, fe  what its fetch returned
               \*   ov  at some moment of its life another Get was between its clock reading and its answer
               \*   lin, r, e  answer determined, and what it is
  fetching     \* Gets whose fetch has started and has not taken effect yet

imvars == <<now, ival, res, err, last, gets, fetching>>
EmptyFn == [x \in {} |-> 0]
Put(f, x, y) == [z \in DOMAIN f \cup {x} |-> IF z = x THEN y ELSE f[z]]
Drop(f, x) == [z \in DOMAIN f \ {x} |-> f[z]]
G0 == [t |-> -1, f |-> "no", n |-> 0, fr |-> 0, fe |-> 0, ov |-> FALSE, lin |-> FALSE, r |-> 0, e |-> 0]

IStart == now = 1 /\ ival = 0 /\ res = 0 /\ err = 0 /\ last = {} /\ gets = EmptyFn /\ fetching = {}
IReset(t, i) == now' = t /\ ival' = i /\ res' = 0 /\ err' = 0 /\ last' = {} /\ gets' = EmptyFn /\ fetching' = {}

TickOK(t) == t >= now
TickEff(t) == now' = t /\ UNCHANGED <<ival, res, err, last, gets, fetching>>

\* another Get is between its clock reading and its answer (about to fetch, fetching, storing, about to answer)
BusyOther(p) == \E q \in DOMAIN gets \ {p} : ~gets[q].lin /\ gets[q].t # -1

GetStartOK(p) == p \notin DOMAIN gets
GetStartEff(p) ==
  /\ gets' = Put(gets, p, [G0 EXCEPT !.ov = BusyOther(p)])
  /\ UNCHANGED <<now, ival, res, err, last, fetching>>

\* the library read the clock inside p's Get: before it decides whether to fetch (the reading the decision is based
\* on); a reading taken once its own fetch has begun may (or may not) be the one the interval is counted from
ClkOK(p, t) == p \in DOMAIN gets /\ ~gets[p].lin /\ t = now
ClkEff(p, t) ==
  IF gets[p].f = "no"
    THEN /\ gets' = [q \in DOMAIN gets |-> IF q = p THEN [gets[q] EXCEPT !.t = t] ELSE [gets[q] EXCEPT !.ov = TRUE]]
         /\ UNCHANGED <<now, ival, res, err, last, fetching>>
    ELSE /\ last' = last \cup {t}
         /\ UNCHANGED <<now, ival, res, err, gets, fetching>>

MayFetch(p)  == last = {} \/ \E v \in last : gets[p].t - v >= ival
MustFetch(p) == \A v \in last : gets[p].t - v > ival

FetchStartOK(p, n, KF) ==
  /\ p \in DOMAIN gets /\ ~gets[p].lin /\ gets[p].f = "no" /\ gets[p].t # -1
  /\ \/ res = 0 /\ fetching = {} /\ MayFetch(p)                                       \* Loaded, Cached, OneFetch
     \/ "KF_ImmOverlappingFetch" \in KF /\ gets[p].ov
FetchStartEff(p, n, KF) ==
  /\ last' = (IF "KF_ImmOverlappingFetch" \in KF /\ gets[p].ov THEN last \cup {gets[p].t} ELSE {gets[p].t})
  /\ fetching' = fetching \cup {p}
  /\ gets' = [gets EXCEPT ![p].f = "run", ![p].n = n]
  /\ UNCHANGED <<now, ival, res, err>>

FetchEndOK(p, n, r, e) ==
  /\ p \in DOMAIN gets /\ gets[p].f = "run" /\ gets[p].n = n
  /\ (r = 0) # (e = 0)                                                                \* premise on the fetch function
FetchEndEff(p, r, e) ==
  /\ gets' = [gets EXCEPT ![p].f = "got", ![p].fr = r, ![p].fe = e]
  /\ UNCHANGED <<now, ival, res, err, last, fetching>>

\* unlogged: the outcome of p's fetch takes effect
StoreOK(p, KF) ==
  /\ p \in DOMAIN gets /\ gets[p].f = "got"
  /\ res = 0 \/ "KF_ImmOverlappingFetch" \in KF                                       \* Loaded: never replaced
StoreEff(p) ==
  /\ IF gets[p].fe # 0 THEN err' = gets[p].fe /\ res' = res ELSE res' = gets[p].fr /\ err' = 0
  /\ gets' = [gets EXCEPT ![p].f = "done"] /\ fetching' = fetching \ {p}
  /\ UNCHANGED <<now, ival, last>>

\* unlogged: the answer of p's Get is determined
LinOK(p, KF) ==
  /\ p \in DOMAIN gets /\ ~gets[p].lin /\ gets[p].f \in {"no", "done"}
  /\ \/ res # 0 /\ (err = 0 \/ "KF_ImmOverlappingFetch" \in KF)                       \* Loaded
     \/ res = 0 /\ err # 0 /\ gets[p].f = "done"                                      \* it fetched, the fetch failed
     \/ res = 0 /\ err # 0 /\ gets[p].f = "no" /\ gets[p].t # -1 /\ last # {} /\ ~MustFetch(p)   \* Cached
     \/ /\ "KF_ImmSkipDuringFetch" \in KF
        /\ res = 0 /\ gets[p].f = "no" /\ gets[p].t # -1 /\ BusyOther(p)
LinEff(p) ==
  /\ gets' = [gets EXCEPT ![p].lin = TRUE, ![p].r = res, ![p].e = err]
  /\ UNCHANGED <<now, ival, res, err, last, fetching>>

\* (with a resource AND an error stored -- only under the deviation -- Get answers the error or, on its fast path, nil)
GetEndOK(p, r, e, KF) ==
  /\ p \in DOMAIN gets /\ gets[p].lin /\ gets[p].r = r
  /\ gets[p].e = e \/ ("KF_ImmOverlappingFetch" \in KF /\ r # 0 /\ e = 0)
GetEndEff(p) == gets' = Drop(gets, p) /\ UNCHANGED <<now, ival, res, err, last, fetching>>

ITypeOK ==
  /\ fetching \subseteq DOMAIN gets
  /\ \A p \in DOMAIN gets : gets[p].f \in {"no", "run", "got", "done"} /\ (p \in fetching <=> gets[p].f \in {"run", "got"})
\* hold as long as no deviation is enabled
PairOK == ~(res # 0 /\ err # 0)
OneFetch == Cardinality(fetching) <= 1 /\ (fetching # {} => res = 0)
Answer == \A p \in DOMAIN gets : gets[p].lin => (gets[p].r = 0) # (gets[p].e = 0)
=============================================================================
