SPECIFICATION ISpec
CONSTANTS
  K = 2
  Waiters = {1}
  WgWorkers = 0
  Variant = "doneskip"
  Mode = "free"
  Emit = FALSE
  MinCmd = 0
INVARIANTS Refines DeadEndsAreComplete
VIEW View
CHECK_DEADLOCK FALSE
