SPECIFICATION GSpec
CONSTANTS
  D = 5
  MaxW = 2
INVARIANTS PrintHist
CHECK_DEADLOCK FALSE
