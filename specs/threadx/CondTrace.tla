------------------------------ MODULE CondTrace ------------------------------
(* Trace validation: events recorded from the real syncx.Cond (waiters and signallers in their own goroutines,
   the virtual clock hook logging every read) must be a behaviour of Cond.tla.  Unlogged: Deliver(s, p) -- which
   pending Signal woke which pending waiter (TLC searches); the clk event does not know which waiter read the
   clock, TLC picks one.  No action for "stuck" (a waiter that no amount of signalling brings back, a Signal that
   does not return).                                                                                          *)
EXTENDS Cond, TraceKit

VARIABLE l
tvars == <<cvars, l>>

E == Trace[l]
IsEvent(e) == l <= Len(Trace) /\ E.e = e /\ l' = l + 1

TReset     == IsEvent("reset")     /\ E.m = "cond" /\ CReset(E.now)
TTick      == IsEvent("tick")      /\ TickOK(E.now) /\ TickEff(E.now)
TWaitStart == IsEvent("waitStart") /\ WaitStartOK(E.p, E.mode) /\ WaitStartEff(E.p, E.mode, E.timeout)
TClk       == IsEvent("clk")       /\ \E p \in DOMAIN wt : ClkOK(p, E.now) /\ ClkEff(p, E.now)
TWaitEnd   == IsEvent("waitEnd")   /\ WaitEndOK(E.p, E.ok, E.remain) /\ WaitEndEff(E.p)
TSigStart  == IsEvent("sigStart")  /\ SigStartOK(E.s) /\ SigStartEff(E.s)
TSigEnd    == IsEvent("sigEnd")    /\ SigEndOK(E.s) /\ SigEndEff(E.s)
TDeliver   == l <= Len(Trace) /\ UNCHANGED l /\ \E s \in DOMAIN sg, p \in DOMAIN wt : DeliverOK(s, p) /\ DeliverEff(s, p)

TInit == CStart /\ l = 1
TNext == TReset \/ TTick \/ TWaitStart \/ TClk \/ TWaitEnd \/ TSigStart \/ TSigEnd \/ TDeliver
TSpec == TInit /\ [][TNext]_tvars

HW == HighWater(l)
=============================================================================
