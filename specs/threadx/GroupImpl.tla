------------------------------ MODULE GroupImpl ------------------------------
(* Layer I: core/threading/routinegroup.go, routines.go, workergroup.go as written, against the
   guards of Group.tla.

     Run(fn):      wg.Add(1); go func() { defer wg.Done(); fn() }()
     RunSafe(fn):  wg.Add(1); GoSafe(func() { defer wg.Done(); fn() })     GoSafe(f): go RunSafe(f)
     RunSafe(f):   defer rescue.Recover(); f()
     Wait():       wg.Wait()
     WorkerGroup.Start(): g := NewRoutineGroup(); for i < workers { g.RunSafe(job) }; g.Wait()

   A spawner calls Run / RunSafe for functions 1..K one after the other; waiters call Wait whenever they
   like; a function finishes (returns, or panics if it was spawned by RunSafe) when the environment lets
   it; optionally one WorkerGroup with WgWorkers workers is started.

   Mode = "free": everything interleaves (model checking).
   Mode = "rtc" : the environment moves only when the library is quiescent; commands and the observable
                  events they cause are kept in hist (generation).
   Variant = "ok" | "addinside" (wg.Add runs in the new goroutine) | "doneskip" (wg.Done not deferred: a
   panic skips it)                                                                                    *)
EXTENDS Group, Json

CONSTANTS K, Waiters, WgWorkers, Variant, Mode, Emit, MinCmd

VARIABLES
  wg,        \* the RoutineGroup's wait group counter
  spc, cur,  \* spawner: pc ("idle" | "add" | "go" | "ret"), function being spawned
  fpc,       \* function i -> "none" | "new" | "add" | "run" | "fin" | "end"
  fhow, fout,
  wpc,       \* waiter -> "idle" | "wait" | "ret" | "end"
  swg, stpc, sn, jpc, jout,   \* WorkerGroup.Start: its own wait group, starter pc, workers spawned, job pcs
  nsp, viol, hist, ncmd

ivars == <<wg, spc, cur, fpc, fhow, fout, wpc, swg, stpc, sn, jpc, jout, nsp>>
vars == <<gvars, ivars, viol, hist, ncmd>>
Fns == 1..K
Jobs == 1..WgWorkers

IInit ==
  /\ GStart /\ wg = 0 /\ spc = "idle" /\ cur = 0
  /\ fpc = [i \in Fns |-> "none"] /\ fhow = [i \in Fns |-> "run"] /\ fout = [i \in Fns |-> "ret"]
  /\ wpc = [w \in Waiters |-> "idle"]
  /\ swg = 0 /\ stpc = (IF WgWorkers > 0 THEN "idle" ELSE "off") /\ sn = 0
  /\ jpc = [j \in Jobs |-> "none"] /\ jout = [j \in Jobs |-> "ret"]
  /\ nsp = 0 /\ viol = "" /\ hist = <<>> /\ ncmd = 0

Obs(name, ok) == viol' = IF viol = "" /\ ~ok THEN name ELSE viol
Silent == UNCHANGED <<gvars, viol>>
Log(r) == hist' = IF Mode = "rtc" THEN Append(hist, r) ELSE hist
NoLog == UNCHANGED hist
Cmd == ncmd' = ncmd + 1
NoCmd == UNCHANGED ncmd

\* ------------------------------------------------------------------ spawner
ESpawnStart(how) ==
  /\ spc = "idle" /\ nsp < K
  /\ nsp' = nsp + 1 /\ cur' = nsp + 1 /\ spc' = "add" /\ fhow' = [fhow EXCEPT ![nsp + 1] = how]
  /\ Obs("spawnStart", SpawnStartOK(nsp + 1, how)) /\ SpawnStartEff(nsp + 1, how)
  /\ Log([cmd |-> "spawn", i |-> nsp + 1, how |-> how]) /\ Cmd
  /\ UNCHANGED <<wg, fpc, fout, wpc, swg, stpc, sn, jpc, jout>>

LSpawnAdd ==
  /\ spc = "add" /\ spc' = "go"
  /\ wg' = IF Variant = "addinside" THEN wg ELSE wg + 1
  /\ Silent /\ NoLog /\ NoCmd
  /\ UNCHANGED <<cur, fpc, fhow, fout, wpc, swg, stpc, sn, jpc, jout, nsp>>

LSpawnGo ==
  /\ spc = "go" /\ spc' = "ret"
  /\ fpc' = [fpc EXCEPT ![cur] = IF Variant = "addinside" THEN "add" ELSE "new"]
  /\ Silent /\ NoLog /\ NoCmd
  /\ UNCHANGED <<wg, cur, fhow, fout, wpc, swg, stpc, sn, jpc, jout, nsp>>

LSpawnEnd ==
  /\ spc = "ret" /\ spc' = "idle"
  /\ Obs("spawnEnd", SpawnEndOK(cur)) /\ SpawnEndEff(cur)
  /\ Log([ev |-> "spawnEnd", i |-> cur]) /\ NoCmd
  /\ UNCHANGED <<wg, cur, fpc, fhow, fout, wpc, swg, stpc, sn, jpc, jout, nsp>>

\* ------------------------------------------------------------------ spawned functions
LFnAdd(i) ==
  /\ fpc[i] = "add" /\ fpc' = [fpc EXCEPT ![i] = "new"] /\ wg' = wg + 1
  /\ Silent /\ NoLog /\ NoCmd
  /\ UNCHANGED <<spc, cur, fhow, fout, wpc, swg, stpc, sn, jpc, jout, nsp>>

LFnStart(i) ==
  /\ fpc[i] = "new" /\ fpc' = [fpc EXCEPT ![i] = "run"]
  /\ Obs("fStart", FStartOK(i)) /\ FStartEff(i)
  /\ Log([ev |-> "fStart", i |-> i]) /\ NoCmd
  /\ UNCHANGED <<wg, spc, cur, fhow, fout, wpc, swg, stpc, sn, jpc, jout, nsp>>

EFnEnd(i, out) ==
  /\ fpc[i] = "run" /\ (out = "panic" => fhow[i] = "runsafe")
  /\ fpc' = [fpc EXCEPT ![i] = "fin"] /\ fout' = [fout EXCEPT ![i] = out]
  /\ Obs("fEnd", FEndOK(i, out)) /\ FEndEff(i)
  /\ Log([cmd |-> "rel", i |-> i, out |-> out]) /\ Cmd
  /\ UNCHANGED <<wg, spc, cur, fhow, wpc, swg, stpc, sn, jpc, jout, nsp>>

LFnDone(i) ==
  /\ fpc[i] = "fin" /\ fpc' = [fpc EXCEPT ![i] = "end"]
  /\ wg' = IF Variant = "doneskip" /\ fout[i] = "panic" THEN wg ELSE wg - 1
  /\ Silent /\ NoLog /\ NoCmd
  /\ UNCHANGED <<spc, cur, fhow, fout, wpc, swg, stpc, sn, jpc, jout, nsp>>

\* ------------------------------------------------------------------ waiters
EWaitStart(w) ==
  /\ wpc[w] = "idle" /\ wpc' = [wpc EXCEPT ![w] = "wait"]
  /\ Obs("waitStart", WaitStartOK(w)) /\ WaitStartEff(w)
  /\ Log([cmd |-> "wait", w |-> w]) /\ Cmd
  /\ UNCHANGED <<wg, spc, cur, fpc, fhow, fout, swg, stpc, sn, jpc, jout, nsp>>

LWaitPass(w) ==
  /\ wpc[w] = "wait" /\ wg = 0 /\ wpc' = [wpc EXCEPT ![w] = "ret"]
  /\ Silent /\ NoLog /\ NoCmd
  /\ UNCHANGED <<wg, spc, cur, fpc, fhow, fout, swg, stpc, sn, jpc, jout, nsp>>

LWaitEnd(w) ==
  /\ wpc[w] = "ret" /\ wpc' = [wpc EXCEPT ![w] = "end"]
  /\ Obs("waitEnd", WaitEndOK(w)) /\ WaitEndEff(w)
  /\ Log([ev |-> "waitEnd", w |-> w]) /\ NoCmd
  /\ UNCHANGED <<wg, spc, cur, fpc, fhow, fout, swg, stpc, sn, jpc, jout, nsp>>

\* ------------------------------------------------------------------ WorkerGroup.Start
EWgStart ==
  /\ stpc = "idle" /\ stpc' = "spawn"
  /\ Obs("wgStart", WgStartOK(1, WgWorkers)) /\ WgStartEff(1, WgWorkers)
  /\ Log([cmd |-> "wg", n |-> WgWorkers]) /\ Cmd
  /\ UNCHANGED <<wg, spc, cur, fpc, fhow, fout, wpc, swg, sn, jpc, jout, nsp>>

LWgSpawn ==
  /\ stpc = "spawn"
  /\ IF sn < WgWorkers
       THEN /\ sn' = sn + 1 /\ swg' = swg + 1 /\ jpc' = [jpc EXCEPT ![sn + 1] = "new"] /\ stpc' = stpc
       ELSE /\ stpc' = "wait" /\ UNCHANGED <<sn, swg, jpc>>
  /\ Silent /\ NoLog /\ NoCmd
  /\ UNCHANGED <<wg, spc, cur, fpc, fhow, fout, wpc, jout, nsp>>

LJobStart(j) ==
  /\ jpc[j] = "new" /\ jpc' = [jpc EXCEPT ![j] = "run"]
  /\ Obs("jStart", JStartOK(1, j)) /\ JStartEff(1, j)
  /\ Log([ev |-> "jStart", j |-> j]) /\ NoCmd
  /\ UNCHANGED <<wg, spc, cur, fpc, fhow, fout, wpc, swg, stpc, sn, jout, nsp>>

EJobEnd(j, out) ==
  /\ jpc[j] = "run" /\ jpc' = [jpc EXCEPT ![j] = "fin"] /\ jout' = [jout EXCEPT ![j] = out]
  /\ Obs("jEnd", JEndOK(1, j, out)) /\ JEndEff(1, j)
  /\ Log([cmd |-> "jrel", j |-> j, out |-> out]) /\ Cmd
  /\ UNCHANGED <<wg, spc, cur, fpc, fhow, fout, wpc, swg, stpc, sn, nsp>>

LJobDone(j) ==
  /\ jpc[j] = "fin" /\ jpc' = [jpc EXCEPT ![j] = "end"]
  /\ swg' = IF Variant = "doneskip" /\ jout[j] = "panic" THEN swg ELSE swg - 1
  /\ Silent /\ NoLog /\ NoCmd
  /\ UNCHANGED <<wg, spc, cur, fpc, fhow, fout, wpc, stpc, sn, jout, nsp>>

LWgWait ==
  /\ stpc = "wait" /\ swg = 0 /\ stpc' = "ret"
  /\ Silent /\ NoLog /\ NoCmd
  /\ UNCHANGED <<wg, spc, cur, fpc, fhow, fout, wpc, swg, sn, jpc, jout, nsp>>

LWgEnd ==
  /\ stpc = "ret" /\ stpc' = "end"
  /\ Obs("wgEnd", WgEndOK(1)) /\ WgEndEff(1)
  /\ Log([ev |-> "wgEnd"]) /\ NoCmd
  /\ UNCHANGED <<wg, spc, cur, fpc, fhow, fout, wpc, swg, sn, jpc, jout, nsp>>

\* ------------------------------------------------------------------ next-state relation
LibNext ==
  \/ LSpawnAdd \/ LSpawnGo \/ LSpawnEnd
  \/ \E i \in Fns : LFnAdd(i) \/ LFnStart(i) \/ LFnDone(i)
  \/ \E w \in Waiters : LWaitPass(w) \/ LWaitEnd(w)
  \/ LWgSpawn \/ LWgWait \/ LWgEnd \/ \E j \in Jobs : LJobStart(j) \/ LJobDone(j)
EnvNext ==
  \/ \E how \in {"run", "runsafe"} : ESpawnStart(how)
  \/ \E i \in Fns, out \in {"ret", "panic"} : EFnEnd(i, out)
  \/ \E w \in Waiters : EWaitStart(w)
  \/ EWgStart \/ \E j \in Jobs, out \in {"ret", "panic"} : EJobEnd(j, out)
Quiescent == ~ENABLED LibNext
INext == LibNext \/ ((Mode = "free" \/ Quiescent) /\ EnvNext)
ISpec == IInit /\ [][INext]_vars

Refines == viol = ""
\* no successor = a finished run: everything spawned has finished, every Wait and Start has returned
DeadEndsAreComplete ==
  ~ENABLED INext =>
    /\ \A i \in Fns : fpc[i] = "end"
    /\ \A w \in Waiters : wpc[w] = "end"
    /\ stpc \in {"off", "end"} /\ wg = 0 /\ swg = 0

View == <<gvars, ivars, viol, ncmd>>
PrintHist == (Emit /\ Mode = "rtc" /\ Quiescent /\ ncmd >= MinCmd) => PrintT("TRACE " \o ToJson(hist))
=============================================================================
