SPECIFICATION TSpec
CONSTRAINT HW
INVARIANTS SRTypeOK CapSafe TakenAreDone StartedHaveRoom
POSTCONDITION Accepted
CHECK_DEADLOCK FALSE
