SPECIFICATION ISpec
CONSTANTS
  Procs = {1, 2}
  MaxOps = 3
  Kind = "spin"
  Variant = "tas"
  Init = 0
INVARIANTS Refines MutualExclusion
CHECK_DEADLOCK FALSE
