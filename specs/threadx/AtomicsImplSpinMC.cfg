SPECIFICATION ISpec
CONSTANTS
  Procs = {1, 2, 3}
  MaxOps = 9
  Kind = "spin"
  Variant = "ok"
  Init = 0
INVARIANTS Refines Agree ATypeOK MutualExclusion
CHECK_DEADLOCK FALSE
