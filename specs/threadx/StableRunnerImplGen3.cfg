SPECIFICATION ISpec
CONSTANTS
  N = 1
  C = 1
  MaxPush = 3
  MaxGet = 4
  Variant = "ok"
  Mode = "rtc"
  Emit = TRUE
  MinCmd = 3
  MaxCmd = 11
INVARIANTS Refines PrintHist
VIEW View
CHECK_DEADLOCK FALSE
