SPECIFICATION ISpec
CONSTANTS
  Procs = {1, 2}
  MaxGets = 3
  MaxNow = 4
  Ival = 1
  Variant = "asis"
  Findings = {"KF_ImmSkipDuringFetch"}
INVARIANTS Refines
CHECK_DEADLOCK FALSE
