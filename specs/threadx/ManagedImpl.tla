----------------------------- MODULE ManagedImpl -----------------------------
(* Layer I: core/syncx/managedresource.go as written (double-checked locking on an RWMutex) against the
   guards of Atomics.tla, kind "managed".

     Take():          lock.RLock(); r := resource; lock.RUnlock(); if r != nil { return r }
                      lock.Lock(); defer lock.Unlock()
                      if resource == nil { resource = generate() }; return resource
     MarkBroken(x):   lock.Lock(); defer lock.Unlock(); if equals(resource, x) { resource = nil }

   Linearization points: the read under the read lock when it finds a resource; otherwise the re-check / the
   generate callback under the write lock; for MarkBroken the compare under the write lock.
   Variant = "ok" | "norecheck" (the slow path generates without looking again: two racing Takes generate twice). *)
EXTENDS Atomics

CONSTANTS Procs, MaxOps, Variant

VARIABLES
  res,       \* the field resource (0 = nil)
  rd, wr,    \* RWMutex: number of readers, writer present
  pc, loc,   \* per process: program counter, local r / argument
  ngen, nops, viol

ivars == <<res, rd, wr, pc, loc, ngen, nops>>
vars == <<avars, ivars, viol>>

IInit ==
  /\ AStart("managed", 0) /\ res = 0 /\ rd = 0 /\ wr = FALSE
  /\ pc = [p \in Procs |-> "idle"] /\ loc = [p \in Procs |-> 0]
  /\ ngen = 0 /\ nops = 0 /\ viol = ""

Obs(name, ok) == viol' = IF viol = "" /\ ~ok THEN name ELSE viol
Silent == UNCHANGED <<avars, viol>>
Go(p, to) == pc' = [pc EXCEPT ![p] = to]

TakeStart(p) ==
  /\ pc[p] = "idle" /\ nops < MaxOps /\ nops' = nops + 1 /\ Go(p, "t_rlock")
  /\ Obs("callStart", CallStartOK(p, "take")) /\ CallStartEff(p, "take", 0, 0)
  /\ UNCHANGED <<res, rd, wr, loc, ngen>>
TakeRLock(p) == pc[p] = "t_rlock" /\ ~wr /\ rd' = rd + 1 /\ Go(p, "t_read") /\ Silent /\ UNCHANGED <<res, wr, loc, ngen, nops>>
TakeRead(p) ==
  /\ pc[p] = "t_read" /\ loc' = [loc EXCEPT ![p] = res] /\ Go(p, "t_runlock")
  /\ IF res # 0 THEN Obs("lin", LinOK(p)) /\ LinEff(p) ELSE Silent
  /\ UNCHANGED <<res, rd, wr, ngen, nops>>
TakeRUnlock(p) ==
  /\ pc[p] = "t_runlock" /\ rd' = rd - 1 /\ Go(p, IF loc[p] # 0 THEN "t_ret" ELSE "t_lock")
  /\ Silent /\ UNCHANGED <<res, wr, loc, ngen, nops>>
TakeLock(p) == pc[p] = "t_lock" /\ ~wr /\ rd = 0 /\ wr' = TRUE /\ Go(p, "t_check") /\ Silent /\ UNCHANGED <<res, rd, loc, ngen, nops>>
TakeCheck(p) ==
  /\ pc[p] = "t_check"
  /\ IF res = 0 \/ Variant = "norecheck"
       THEN /\ ngen' = ngen + 1 /\ res' = ngen + 1 /\ loc' = [loc EXCEPT ![p] = ngen + 1]
            /\ Obs("gen", GenOK(p, ngen + 1)) /\ GenEff(p, ngen + 1)
       ELSE /\ loc' = [loc EXCEPT ![p] = res] /\ UNCHANGED <<res, ngen>>
            /\ Obs("lin", LinOK(p)) /\ LinEff(p)
  /\ Go(p, "t_unlock") /\ UNCHANGED <<rd, wr, nops>>
TakeUnlock(p) == pc[p] = "t_unlock" /\ wr' = FALSE /\ Go(p, "t_ret") /\ Silent /\ UNCHANGED <<res, rd, loc, ngen, nops>>
TakeEnd(p) ==
  /\ pc[p] = "t_ret" /\ Go(p, "idle")
  /\ Obs("callEnd", CallEndOK(p, loc[p])) /\ CallEndEff(p)
  /\ UNCHANGED <<res, rd, wr, loc, ngen, nops>>

BrokenStart(p, x) ==
  /\ pc[p] = "idle" /\ nops < MaxOps /\ nops' = nops + 1 /\ Go(p, "b_lock") /\ loc' = [loc EXCEPT ![p] = x]
  /\ Obs("callStart", CallStartOK(p, "broken")) /\ CallStartEff(p, "broken", x, 0)
  /\ UNCHANGED <<res, rd, wr, ngen>>
BrokenLock(p) == pc[p] = "b_lock" /\ ~wr /\ rd = 0 /\ wr' = TRUE /\ Go(p, "b_cmp") /\ Silent /\ UNCHANGED <<res, rd, loc, ngen, nops>>
BrokenCmp(p) ==
  /\ pc[p] = "b_cmp" /\ res' = (IF res = loc[p] THEN 0 ELSE res) /\ Go(p, "b_unlock")
  /\ Obs("lin", LinOK(p)) /\ LinEff(p)
  /\ UNCHANGED <<rd, wr, loc, ngen, nops>>
BrokenUnlock(p) == pc[p] = "b_unlock" /\ wr' = FALSE /\ Go(p, "b_ret") /\ Silent /\ UNCHANGED <<res, rd, loc, ngen, nops>>
BrokenEnd(p) ==
  /\ pc[p] = "b_ret" /\ Go(p, "idle")
  /\ Obs("callEnd", CallEndOK(p, 0)) /\ CallEndEff(p)
  /\ UNCHANGED <<res, rd, wr, loc, ngen, nops>>

INext == \E p \in Procs :
  \/ TakeStart(p) \/ TakeRLock(p) \/ TakeRead(p) \/ TakeRUnlock(p) \/ TakeLock(p) \/ TakeCheck(p) \/ TakeUnlock(p) \/ TakeEnd(p)
  \/ (\E x \in 1..MaxOps : x <= ngen /\ BrokenStart(p, x)) \/ BrokenLock(p) \/ BrokenCmp(p) \/ BrokenUnlock(p) \/ BrokenEnd(p)
ISpec == IInit /\ [][INext]_vars

Refines == viol = ""
Agree == res = st /\ (wr => rd = 0)
DeadEndsAreComplete == ~ENABLED INext => (\A p \in Procs : pc[p] = "idle") /\ ~wr /\ rd = 0
=============================================================================
