--------------------------- MODULE StableRunnerMC ---------------------------
(* The abstract machine of StableRunner.tla on its own: the environment (one producer, one
   consumer, handlers that finish whenever they like) against the most liberal runner the
   property admits.  Checked exhaustively for small constants: the sanity invariants hold and
   no action is dead (-coverage).                                                          *)
EXTENDS StableRunner

CONSTANTS PN, PC, PVals
PInit == SRStart(PN, PC)
PushStart == \E v \in PVals : PushStartOK(v) /\ (\A w \in AccVals : w < v) /\ PushStartEff(v)
PushEnd   == \E err \in BOOLEAN : PushEndOK(prod.v, err) /\ PushEndEff
HStart    == \E v \in PVals : HStartOK(v) /\ HStartEff(v)
HEnd      == \E v \in PVals : HEndOK(v) /\ HEndEff(v, v + 100)
GetStart  == GetStartOK /\ GetStartEff
Take      == TakeOK /\ TakeEff
GetEndVal == \E o \in {v + 100 : v \in PVals} : GetEndOK(o, FALSE) /\ GetEndEff
GetEndErr == GetEndOK(0, TRUE) /\ GetEndEff
WaitStart == WaitStartOK /\ WaitStartEff
WaitEnd   == WaitEndOK /\ WaitEndEff
PNext == \/ PushStart \/ PushEnd \/ HStart \/ HEnd \/ GetStart \/ Take
         \/ GetEndVal \/ GetEndErr \/ WaitStart \/ WaitEnd
PSpec == PInit /\ [][PNext]_srvars
=============================================================================
