SPECIFICATION ISpec
CONSTANTS
  K = 2
  Waiters = {1}
  WgWorkers = 2
  Variant = "ok"
  Mode = "free"
  Emit = FALSE
  MinCmd = 0
INVARIANTS Refines DeadEndsAreComplete GTypeOK SyncDone
VIEW View
CHECK_DEADLOCK FALSE
