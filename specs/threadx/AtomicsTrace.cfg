SPECIFICATION TSpec
CONSTRAINT HW
INVARIANTS ATypeOK
POSTCONDITION Accepted
CHECK_DEADLOCK FALSE
