---------------------------- MODULE StableRunner ----------------------------
(* Layer P (extension "stablerunner", host C05): what core/threading.StableRunner owes its
   users, phrased over observable events only.

     "StableRunner is a runner that guarantees messages are taken out with the pushed order."
     "Push pushes the message v into the runner and to be processed concurrently, after
      processed, it will be cached to let caller take it in pushing order."
     "Get returns the next processed message in order.  This method should be called in one
      goroutine."
     "Wait waits all the messages to be processed and taken from inner buffer."
     (stablerunner_test.go: after Wait, Push and Get answer ErrRunnerClosed.)

   Premises (usage the doc comments / tests describe): one producer goroutine issues Push and
   finally Wait, one after the other; one consumer goroutine issues Get; pushed values are
   distinct; the handler does not panic.

   Events (the handler is a harness callback):
     pushStart(v)          logged BEFORE Push(v) is called
     pushEnd(v, err)       logged AFTER it returned; err <=> ErrRunnerClosed
     hStart(v)             first statement of the handler for v
     hEnd(v, o)            last statement of the handler: it is about to return o
     getStart / getEnd(o, err)   around Get
     waitStart / waitEnd         around Wait
   Take is the only unlogged step: the instant inside Get at which the next result leaves the
   inner buffer (TLC infers it during trace validation).

   What is demanded:
     Order / NoLoss / NoDup   the k-th successful Get returns what the handler returned for the
                              k-th accepted Push, and only after that handler has finished
     ExactlyOnce              the handler runs at most once per accepted value (and, by Wait,
                              exactly once)
     Closed                   Push is refused iff Wait has been called; Get is refused only when
                              Wait has been called and every accepted message has been taken
     WaitCovers               Wait returns only when every accepted message has been taken
     Cap                      at most c handlers run at a time (c = size of the inner TaskRunner)
     Room (bounded ring)      the handler of the i-th message starts -- and Push(i) returns --
                              only when at most 2n messages are accepted and not yet taken,
                              n = ring size: n results cached + n handlers that have finished
                              and are waiting for their cell
   Nothing here mentions channels, locks, indices or who runs first.                        *)
EXTENDS Integers, Sequences, FiniteSets, TLC

VARIABLES
  n,       \* ring size (bufSize)
  c,       \* handler concurrency
  q,       \* accepted values, in push order
  hst,     \* accepted value |-> "run" | "done"   (handler started / finished)
  outv,    \* value |-> what its handler returned
  taken,   \* number of results that left the inner buffer
  closed,  \* Wait has been called
  prod,    \* producer's current call
  cons     \* consumer's current call: "idle" | "get" (nothing taken yet) | "got"

srvars == <<n, c, q, hst, outv, taken, closed, prod, cons>>

EmptyFn == [x \in {} |-> 0]
IdleP == [op |-> "idle", v |-> 0]
AccVals == {q[i] : i \in 1..Len(q)}
Idx(v) == CHOOSE i \in 1..Len(q) : q[i] = v
Running == {v \in DOMAIN hst : hst[v] = "run"}
Room(i) == taken >= i - 2 * n

SRStart(rn, rc) ==
  /\ n = rn /\ c = rc /\ q = <<>> /\ hst = EmptyFn /\ outv = EmptyFn
  /\ taken = 0 /\ closed = FALSE /\ prod = IdleP /\ cons = "idle"

SRReset(rn, rc) ==
  /\ n' = rn /\ c' = rc /\ q' = <<>> /\ hst' = EmptyFn /\ outv' = EmptyFn
  /\ taken' = 0 /\ closed' = FALSE /\ prod' = IdleP /\ cons' = "idle"

\* ---- every event is a guard (what the property demands) and an effect (bookkeeping) ----
PushStartOK(v) == prod.op = "idle" /\ v \notin AccVals
PushStartEff(v) ==
  /\ prod' = [op |-> "push", v |-> v]
  /\ q' = IF closed THEN q ELSE Append(q, v)
  /\ UNCHANGED <<n, c, hst, outv, taken, closed, cons>>

PushEndOK(v, err) ==
  /\ prod = [op |-> "push", v |-> v]
  /\ err <=> v \notin AccVals                 \* Closed
  /\ ~err => Room(Idx(v))                      \* bounded ring
PushEndEff ==
  /\ prod' = IdleP
  /\ UNCHANGED <<n, c, q, hst, outv, taken, closed, cons>>

HStartOK(v) ==
  /\ v \in AccVals /\ v \notin DOMAIN hst     \* ExactlyOnce
  /\ Cardinality(Running) < c                  \* Cap
  /\ Room(Idx(v))                              \* bounded ring
HStartEff(v) ==
  /\ hst' = [x \in DOMAIN hst \cup {v} |-> IF x = v THEN "run" ELSE hst[x]]
  /\ UNCHANGED <<n, c, q, outv, taken, closed, prod, cons>>

HEndOK(v) == v \in DOMAIN hst /\ hst[v] = "run"
HEndEff(v, o) ==
  /\ hst' = [hst EXCEPT ![v] = "done"]
  /\ outv' = [x \in DOMAIN outv \cup {v} |-> IF x = v THEN o ELSE outv[x]]
  /\ UNCHANGED <<n, c, q, taken, closed, prod, cons>>

GetStartOK == cons = "idle"
GetStartEff == cons' = "get" /\ UNCHANGED <<n, c, q, hst, outv, taken, closed, prod>>

\* the unlogged step: the next result, in push order, leaves the buffer
TakeOK ==
  /\ cons = "get" /\ taken < Len(q)
  /\ q[taken + 1] \in DOMAIN hst /\ hst[q[taken + 1]] = "done"
TakeEff == taken' = taken + 1 /\ cons' = "got" /\ UNCHANGED <<n, c, q, hst, outv, closed, prod>>

GetEndOK(o, err) ==
  IF err THEN cons = "get" /\ closed /\ taken = Len(q)       \* Closed
  ELSE cons = "got" /\ o = outv[q[taken]]                    \* Order
GetEndEff == cons' = "idle" /\ UNCHANGED <<n, c, q, hst, outv, taken, closed, prod>>

WaitStartOK == prod.op = "idle" /\ ~closed
WaitStartEff ==
  /\ prod' = [op |-> "wait", v |-> 0] /\ closed' = TRUE
  /\ UNCHANGED <<n, c, q, hst, outv, taken, cons>>

WaitEndOK == prod.op = "wait" /\ taken = Len(q)              \* WaitCovers
WaitEndEff == prod' = IdleP /\ UNCHANGED <<n, c, q, hst, outv, taken, closed, cons>>

\* ---- properties of the abstract machine (they hold by construction; checked for sanity) ----
SRTypeOK ==
  /\ taken \in 0..Len(q) /\ cons \in {"idle", "get", "got"} /\ closed \in BOOLEAN
  /\ DOMAIN hst \subseteq AccVals /\ DOMAIN outv \subseteq DOMAIN hst
CapSafe == Cardinality(Running) <= c
TakenAreDone == \A i \in 1..taken : q[i] \in DOMAIN hst /\ hst[q[i]] = "done"
StartedHaveRoom == \A v \in DOMAIN hst : Idx(v) - 2 * n <= taken
WaitedMeansDrained == (closed /\ prod.op = "idle") => taken = Len(q)
=============================================================================
