SPECIFICATION MSpec
CONSTANTS
  KSet = {"spin", "once", "abool", "done", "barrier", "ref", "managed"}
  Procs = {1, 2}
  MaxOps = 4
  OneAtATime = FALSE
  Emit = FALSE
INVARIANTS ATypeOK MutualExclusion OneWinner CleanOnce RefCount OnePerBreakage DoneSticks
VIEW View
CHECK_DEADLOCK FALSE
