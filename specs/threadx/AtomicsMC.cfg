SPECIFICATION MSpec
CONSTANTS
  KSet = {"spin", "once", "abool", "adur", "afloat", "done", "barrier", "ref", "managed"}
  Procs = {1, 2}
  MaxOps = 4
  OneAtATime = FALSE
  Emit = FALSE
INVARIANTS ATypeOK MutualExclusion OneWinner CleanOnce RefCount OnePerBreakage NoLostAdd DoneSticks
VIEW View
CHECK_DEADLOCK FALSE
