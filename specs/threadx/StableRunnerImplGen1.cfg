SPECIFICATION ISpec
CONSTANTS
  N = 1
  C = 2
  MaxPush = 4
  MaxGet = 5
  Variant = "ok"
  Mode = "rtc"
  Emit = TRUE
  MinCmd = 4
  MaxCmd = 13
INVARIANTS Refines PrintHist
VIEW View
CHECK_DEADLOCK FALSE
