----------------------------- MODULE ImmutableMC -----------------------------
(* Immutable.tla on its own: Gets of several processes, a clock that moves, a fetch function that succeeds or
   fails as the environment likes, against the most liberal ImmutableResource the specification admits (no
   deviation enabled unless KFs says so).  Checked: the resource is never replaced, no answer is (nil, nil) or
   (resource, error), fetches never overlap, no dead action.

   OneAtATime = TRUE (generation): one Get at a time; hist = the environment script
     [op |-> "get", fo |-> -1 | 0 | e]   one Get; fo = what the fetch function is to return IF it is called during
                                          this Get: 0 a fresh resource, e > 0 the error e; -1 = the specification
                                          expects no fetch
     [op |-> "tick", d |-> k]            move the virtual clock by k
   printed once per distinct (abstract state, last two script steps).  The script only steers: whether the real
   code fetches, and what it answers, is validated by TLC against Immutable.tla.                             *)
EXTENDS Immutable, Json

CONSTANTS Procs, MaxGets, MaxNow, Ivals, Steps, KFs, OneAtATime, Emit

VARIABLES ngets, nfetch, nfail, hist, last2
mvars == <<imvars, ngets, nfetch, nfail, hist, last2>>

MInit == /\ \E i \in Ivals : now = 1 /\ ival = i /\ res = 0 /\ err = 0 /\ last = {} /\ gets = EmptyFn /\ fetching = {}
         /\ ngets = 0 /\ nfetch = 0 /\ nfail = 0 /\ hist = <<>> /\ last2 = <<>>

Note(x) == /\ hist' = (IF OneAtATime THEN Append(hist, x) ELSE hist)
           /\ last2' = (IF ~OneAtATime THEN last2 ELSE IF Len(last2) = 0 THEN <<x>> ELSE <<last2[Len(last2)], x>>)
Quiet == UNCHANGED <<hist, last2>>

Tick == \E d \in Steps :
          /\ now + d <= MaxNow /\ (OneAtATime => gets = EmptyFn)
          /\ (OneAtATime => IF Len(hist) = 0 THEN TRUE ELSE hist[Len(hist)].op # "tick")
          /\ TickOK(now + d) /\ TickEff(now + d) /\ Note([op |-> "tick", d |-> d]) /\ UNCHANGED <<ngets, nfetch, nfail>>
GetStart(p) == /\ ngets < MaxGets /\ (OneAtATime => gets = EmptyFn)
               /\ GetStartOK(p) /\ GetStartEff(p) /\ ngets' = ngets + 1 /\ Quiet /\ UNCHANGED <<nfetch, nfail>>
Clk(p) == /\ p \in DOMAIN gets /\ gets[p].t = -1 /\ ClkOK(p, now) /\ ClkEff(p, now)
          /\ Quiet /\ UNCHANGED <<ngets, nfetch, nfail>>
FetchStart(p) == /\ FetchStartOK(p, nfetch + 1, KFs) /\ FetchStartEff(p, nfetch + 1, KFs)
                 /\ nfetch' = nfetch + 1 /\ Quiet /\ UNCHANGED <<ngets, nfail>>
FetchEnd(p) == /\ p \in DOMAIN gets
               /\ \E o \in {0, 1, 2} :
                    LET r == IF o = 0 THEN gets[p].n ELSE 0 IN
                    /\ FetchEndOK(p, gets[p].n, r, o) /\ FetchEndEff(p, r, o)
                    /\ nfail' = (IF o # 0 /\ nfail < 2 THEN nfail + 1 ELSE nfail)
               /\ Quiet /\ UNCHANGED <<ngets, nfetch>>
Store(p) == StoreOK(p, KFs) /\ StoreEff(p) /\ Quiet /\ UNCHANGED <<ngets, nfetch, nfail>>
Lin(p) == LinOK(p, KFs) /\ LinEff(p) /\ Quiet /\ UNCHANGED <<ngets, nfetch, nfail>>
GetEnd(p) == /\ p \in DOMAIN gets /\ GetEndOK(p, gets[p].r, gets[p].e, KFs) /\ GetEndEff(p)
             /\ Note([op |-> "get", fo |-> IF gets[p].f = "no" THEN -1 ELSE gets[p].fe])
             /\ UNCHANGED <<ngets, nfetch, nfail>>

MNext == Tick \/ \E p \in Procs : GetStart(p) \/ Clk(p) \/ FetchStart(p) \/ FetchEnd(p) \/ Store(p) \/ Lin(p) \/ GetEnd(p)
MSpec == MInit /\ [][MNext]_mvars

\* Loaded: never replaced, nothing fetched once loaded
Immutable == [][(res # 0 => res' = res) /\ (res # 0 => fetching' \subseteq fetching)]_mvars
\* every Get in progress can be finished (no Get is left without an admissible answer)
NoStuckGet == (gets # EmptyFn) => ENABLED (\E p \in Procs : Clk(p) \/ FetchStart(p) \/ FetchEnd(p) \/ Store(p) \/ Lin(p) \/ GetEnd(p))

Newest == CHOOSE v \in last : \A u \in last : u <= v
Age == IF last = {} THEN -1 ELSE IF now - Newest > ival + 1 THEN ival + 1 ELSE now - Newest
View == IF OneAtATime THEN <<ival, res # 0, err, Age, gets, fetching, nfail, last2>>
        ELSE <<imvars, ngets, nfetch, nfail > 0>>
PrintHist == (Emit /\ OneAtATime /\ gets = EmptyFn /\ Len(hist) > 0) =>
               PrintT("TRACE " \o ToJson([ival |-> ival, ops |-> hist]))
=============================================================================
