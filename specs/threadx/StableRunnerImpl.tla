-------------------------- MODULE StableRunnerImpl --------------------------
(* Layer I: core/threading/stablerunner.go as it is written, one action per shared-memory
   step, running against the guards of StableRunner.tla (a guard that is false when the
   library takes the corresponding observable step is recorded in viol).

     ring[N] of {value chan O (cap 1), lock sync.Mutex}; runner = TaskRunner(C) = limitChan(C) + wg
     Push(v):  select { <-done: return Closed; default: }
               i := atomic.Add(&written, 1); cell := ring[(i-1)%N]; cell.lock.Lock()
               runner.Schedule(task)                  -- wg.Add(1); limitChan <- x; go task
               task: o := handle(v); cell.value <- o; cell.lock.Unlock(); <-limitChan; wg.Done()
     Get():    i := atomic.Load(&consumed); cell := ring[i%N]          (defer consumed++)
               select { o := <-cell.value: return o
                        <-done: if consumed < written { return <-cell.value }; return Closed }
     Wait():   close(done); runner.Wait(); for consumed < written { sleep }

   One producer (pushes, then Wait, then pushes), one consumer (gets), the handler finishes
   whenever the environment lets it (hEnd).  Values are 1, 2, 3 ... in push order, the handler
   returns v + 100.

   Mode = "free": environment and library steps interleave freely       (model checking)
   Mode = "rtc" : the environment moves only when the library is quiescent, and the
                  history of commands and of the observable events they cause is kept in
                  hist (generation: the Go driver issues a command and waits for the
                  events listed up to the next command)

   Variant = "ok"         the code as it is
   Variant = "nolock"     Push does not take the cell's lock                (wrong variant)
   Variant = "getnocheck" Get answers Closed as soon as done is closed      (wrong variant)
   Variant = "waitnoloop" Wait returns after runner.Wait()                  (wrong variant) *)
EXTENDS StableRunner, Json

CONSTANTS N, C, MaxPush, MaxGet, Variant, Mode, Emit, MinCmd, MaxCmd

VARIABLES
  written, consumed,   \* the two atomic indices
  ch,                  \* cell -> contents of its value channel (capacity 1)
  lk,                  \* cell -> locked?
  lim, wg,             \* TaskRunner: occupied slots of limitChan, wait group counter
  done,                \* done channel closed?
  ppc, pv,             \* producer: program counter, value of the current Push
  tpc,                 \* task i -> "none" | "spawned" | "run" | "send" | "unlock" | "rel" | "fin"
  cpc, cix, cval,      \* consumer: program counter, loaded index, received value
  npush, nget, waited, \* environment budgets
  viol,                \* name of the first Layer-P guard that did not hold ("" = none)
  hist, ncmd           \* generation history (hidden by the VIEW), commands issued

ivars == <<written, consumed, ch, lk, lim, wg, done, ppc, pv, tpc, cpc, cix, cval, npush, nget, waited>>
vars == <<srvars, ivars, viol, hist, ncmd>>

Cells == 0..(N - 1)
Tasks == 1..MaxPush
CellOf(i) == (i - 1) % N
F(v) == v + 100

IInit ==
  /\ SRStart(N, C)
  /\ written = 0 /\ consumed = 0
  /\ ch = [s \in Cells |-> <<>>] /\ lk = [s \in Cells |-> FALSE]
  /\ lim = 0 /\ wg = 0 /\ done = FALSE
  /\ ppc = "idle" /\ pv = 0 /\ tpc = [i \in Tasks |-> "none"]
  /\ cpc = "idle" /\ cix = 0 /\ cval = 0
  /\ npush = 0 /\ nget = 0 /\ waited = FALSE
  /\ viol = "" /\ hist = <<>> /\ ncmd = 0

\* an observable step: Layer-P effect, and the guard is recorded
Obs(name, ok) == viol' = IF viol = "" /\ ~ok THEN name ELSE viol
Silent == UNCHANGED <<srvars, viol>>
Log(r) == hist' = IF Mode = "rtc" THEN Append(hist, r) ELSE hist
NoLog == UNCHANGED hist
Cmd == ncmd' = ncmd + 1
NoCmd == UNCHANGED ncmd

\* ------------------------------------------------------------------ producer
EPushStart ==
  /\ ppc = "idle" /\ npush < MaxPush
  /\ npush' = npush + 1 /\ pv' = npush + 1 /\ ppc' = "chk"
  /\ Obs("pushStart", PushStartOK(npush + 1)) /\ PushStartEff(npush + 1)
  /\ Log([cmd |-> "push", v |-> npush + 1]) /\ Cmd
  /\ UNCHANGED <<written, consumed, ch, lk, lim, wg, done, tpc, cpc, cix, cval, nget, waited>>

LPushChk ==
  /\ ppc = "chk"
  /\ IF done THEN ppc' = "reterr" /\ UNCHANGED written
             ELSE ppc' = "lock" /\ written' = written + 1
  /\ Silent /\ NoLog /\ NoCmd
  /\ UNCHANGED <<consumed, ch, lk, lim, wg, done, pv, tpc, cpc, cix, cval, npush, nget, waited>>

LPushLock ==
  /\ ppc = "lock"
  /\ IF Variant = "nolock" THEN UNCHANGED lk
     ELSE ~lk[CellOf(pv)] /\ lk' = [lk EXCEPT ![CellOf(pv)] = TRUE]
  /\ ppc' = "sched"
  /\ Silent /\ NoLog /\ NoCmd
  /\ UNCHANGED <<written, consumed, ch, lim, wg, done, pv, tpc, cpc, cix, cval, npush, nget, waited>>

LPushSched ==                         \* Schedule: wg.Add(1); limitChan <- x; go task
  /\ ppc = "sched" /\ lim < C
  /\ lim' = lim + 1 /\ wg' = wg + 1 /\ tpc' = [tpc EXCEPT ![pv] = "spawned"] /\ ppc' = "ret"
  /\ Silent /\ NoLog /\ NoCmd
  /\ UNCHANGED <<written, consumed, ch, lk, done, pv, cpc, cix, cval, npush, nget, waited>>

LPushEnd ==
  /\ ppc \in {"ret", "reterr"}
  /\ Obs("pushEnd", PushEndOK(pv, ppc = "reterr")) /\ PushEndEff
  /\ ppc' = "idle"
  /\ Log([ev |-> "pushEnd", v |-> pv]) /\ NoCmd
  /\ UNCHANGED <<written, consumed, ch, lk, lim, wg, done, pv, tpc, cpc, cix, cval, npush, nget, waited>>

EWaitStart ==
  /\ ppc = "idle" /\ ~waited
  /\ waited' = TRUE /\ ppc' = "wclose"
  /\ Obs("waitStart", WaitStartOK) /\ WaitStartEff
  /\ Log([cmd |-> "wait"]) /\ Cmd
  /\ UNCHANGED <<written, consumed, ch, lk, lim, wg, done, pv, tpc, cpc, cix, cval, npush, nget>>

LWaitClose ==
  /\ ppc = "wclose" /\ done' = TRUE /\ ppc' = "wwg"
  /\ Silent /\ NoLog /\ NoCmd
  /\ UNCHANGED <<written, consumed, ch, lk, lim, wg, pv, tpc, cpc, cix, cval, npush, nget, waited>>

LWaitWg ==
  /\ ppc = "wwg" /\ wg = 0
  /\ ppc' = IF Variant = "waitnoloop" THEN "wret" ELSE "wloop"
  /\ Silent /\ NoLog /\ NoCmd
  /\ UNCHANGED <<written, consumed, ch, lk, lim, wg, done, pv, tpc, cpc, cix, cval, npush, nget, waited>>

LWaitLoop ==
  /\ ppc = "wloop" /\ consumed >= written /\ ppc' = "wret"
  /\ Silent /\ NoLog /\ NoCmd
  /\ UNCHANGED <<written, consumed, ch, lk, lim, wg, done, pv, tpc, cpc, cix, cval, npush, nget, waited>>

LWaitEnd ==
  /\ ppc = "wret" /\ ppc' = "idle"
  /\ Obs("waitEnd", WaitEndOK) /\ WaitEndEff
  /\ Log([ev |-> "waitEnd", v |-> 0]) /\ NoCmd
  /\ UNCHANGED <<written, consumed, ch, lk, lim, wg, done, pv, tpc, cpc, cix, cval, npush, nget, waited>>

\* ------------------------------------------------------------------ tasks
LTaskStart(i) ==
  /\ tpc[i] = "spawned" /\ tpc' = [tpc EXCEPT ![i] = "run"]
  /\ Obs("hStart", HStartOK(i)) /\ HStartEff(i)
  /\ Log([ev |-> "hStart", v |-> i]) /\ NoCmd
  /\ UNCHANGED <<written, consumed, ch, lk, lim, wg, done, ppc, pv, cpc, cix, cval, npush, nget, waited>>

EHandlerEnd(i) ==                     \* the environment lets the handler of i return
  /\ tpc[i] = "run" /\ tpc' = [tpc EXCEPT ![i] = "send"]
  /\ Obs("hEnd", HEndOK(i)) /\ HEndEff(i, F(i))
  /\ Log([cmd |-> "rel", v |-> i]) /\ Cmd
  /\ UNCHANGED <<written, consumed, ch, lk, lim, wg, done, ppc, pv, cpc, cix, cval, npush, nget, waited>>

LTaskSend(i) ==
  /\ tpc[i] = "send" /\ ch[CellOf(i)] = <<>>
  /\ ch' = [ch EXCEPT ![CellOf(i)] = <<F(i)>>] /\ tpc' = [tpc EXCEPT ![i] = "unlock"]
  /\ Silent /\ NoLog /\ NoCmd
  /\ UNCHANGED <<written, consumed, lk, lim, wg, done, ppc, pv, cpc, cix, cval, npush, nget, waited>>

LTaskUnlock(i) ==
  /\ tpc[i] = "unlock" /\ tpc' = [tpc EXCEPT ![i] = "rel"]
  /\ lk' = IF Variant = "nolock" THEN lk ELSE [lk EXCEPT ![CellOf(i)] = FALSE]
  /\ Silent /\ NoLog /\ NoCmd
  /\ UNCHANGED <<written, consumed, ch, lim, wg, done, ppc, pv, cpc, cix, cval, npush, nget, waited>>

LTaskRel(i) ==
  /\ tpc[i] = "rel" /\ tpc' = [tpc EXCEPT ![i] = "fin"]
  /\ lim' = lim - 1 /\ wg' = wg - 1
  /\ Silent /\ NoLog /\ NoCmd
  /\ UNCHANGED <<written, consumed, ch, lk, done, ppc, pv, cpc, cix, cval, npush, nget, waited>>

\* ------------------------------------------------------------------ consumer
EGetStart ==
  /\ cpc = "idle" /\ nget < MaxGet
  /\ nget' = nget + 1 /\ cix' = consumed /\ cpc' = "sel"
  /\ Obs("getStart", GetStartOK) /\ GetStartEff
  /\ Log([cmd |-> "get"]) /\ Cmd
  /\ UNCHANGED <<written, consumed, ch, lk, lim, wg, done, ppc, pv, tpc, cval, npush, waited>>

Recv ==                               \* o := <-cell.value   (the Take of Layer P)
  /\ ch[cix % N] # <<>>
  /\ cval' = Head(ch[cix % N]) /\ ch' = [ch EXCEPT ![cix % N] = <<>>]
  /\ Obs("take", TakeOK) /\ TakeEff

LGetSelValue ==
  /\ cpc = "sel" /\ Recv /\ cpc' = "inc"
  /\ NoLog /\ NoCmd
  /\ UNCHANGED <<written, consumed, lk, lim, wg, done, ppc, pv, tpc, cix, npush, nget, waited>>

LGetSelDone ==
  /\ cpc = "sel" /\ done
  /\ cpc' = IF Variant # "getnocheck" /\ consumed < written THEN "recv" ELSE "incerr"
  /\ Silent /\ NoLog /\ NoCmd
  /\ UNCHANGED <<written, consumed, ch, lk, lim, wg, done, ppc, pv, tpc, cix, cval, npush, nget, waited>>

LGetRecv ==
  /\ cpc = "recv" /\ Recv /\ cpc' = "inc"
  /\ NoLog /\ NoCmd
  /\ UNCHANGED <<written, consumed, lk, lim, wg, done, ppc, pv, tpc, cix, npush, nget, waited>>

LGetInc ==                            \* the deferred consumed++ runs before Get is back at its caller
  /\ cpc \in {"inc", "incerr"}
  /\ consumed' = consumed + 1 /\ cpc' = IF cpc = "inc" THEN "retok" ELSE "reterr"
  /\ Silent /\ NoLog /\ NoCmd
  /\ UNCHANGED <<written, ch, lk, lim, wg, done, ppc, pv, tpc, cix, cval, npush, nget, waited>>

LGetEnd ==
  /\ cpc \in {"retok", "reterr"} /\ cpc' = "idle"
  /\ Obs("getEnd", GetEndOK(cval, cpc = "reterr")) /\ GetEndEff
  /\ Log([ev |-> "getEnd", v |-> 0]) /\ NoCmd
  /\ UNCHANGED <<written, consumed, ch, lk, lim, wg, done, ppc, pv, tpc, cix, cval, npush, nget, waited>>

\* ------------------------------------------------------------------ next-state relation
LibNext ==
  \/ LPushChk \/ LPushLock \/ LPushSched \/ LPushEnd
  \/ LWaitClose \/ LWaitWg \/ LWaitLoop \/ LWaitEnd
  \/ \E i \in Tasks : LTaskStart(i) \/ LTaskSend(i) \/ LTaskUnlock(i) \/ LTaskRel(i)
  \/ LGetSelValue \/ LGetSelDone \/ LGetRecv \/ LGetInc \/ LGetEnd
EnvNext ==
  \/ EPushStart \/ EWaitStart \/ EGetStart \/ \E i \in Tasks : EHandlerEnd(i)

Quiescent == ~ENABLED LibNext
INext ==
  \/ LibNext
  \/ (Mode = "free" \/ (Quiescent /\ ncmd < MaxCmd)) /\ EnvNext
ISpec == IInit /\ [][INext]_vars

\* ------------------------------------------------------------------ what is checked
Refines == viol = ""                  \* every observable step satisfied its Layer-P guard
ITypeOK ==
  /\ lim \in 0..C /\ wg >= 0 /\ consumed >= 0 /\ written \in 0..MaxPush
  /\ \A s \in Cells : Len(ch[s]) <= 1
\* the inner buffer never holds more than the ring, and the library's indices agree with Layer P
Agree == written \in {Len(q) - 1, Len(q)} /\ (cpc \in {"idle", "sel", "recv"} => consumed >= taken)
\* a state without successors is a finished run (budgets: MaxGet > MaxPush), never a deadlock
DeadEndsAreComplete ==
  (~ENABLED INext /\ Mode = "free") =>
     /\ ppc = "idle" /\ cpc = "idle" /\ waited /\ taken = Len(q)
     /\ \A i \in Tasks : tpc[i] \in {"none", "fin"}
     /\ lim = 0 /\ wg = 0 /\ \A s \in Cells : ch[s] = <<>> /\ ~lk[s]

\* ------------------------------------------------------------------ generation
View == <<srvars, ivars, viol, ncmd>>
\* one history (BFS-shortest) per distinct quiescent state reached with at least MinCmd commands
PrintHist == (Emit /\ Mode = "rtc" /\ Quiescent /\ ncmd >= MinCmd) => PrintT("TRACE " \o ToJson(hist))
=============================================================================
