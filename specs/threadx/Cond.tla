-------------------------------- MODULE Cond --------------------------------
(* Layer P (extension "stablerunner", host C05): core/syncx.Cond.

     "A Cond is used to wait for conditions."
     "WaitWithTimeout wait for signal return remain wait time or timed out."
     "Wait waits for signals."      "Signal wakes one goroutine waiting on c, if there is any."
     cond_test.go: the remaining time is the timeout minus the time spent waiting; a Signal with nobody
     waiting is simply lost (TestSignalNoWait) -- it is NOT remembered for a later waiter.

   Events (the clock is the virtual clock hook timex.VerifNow, a harness function that logs every read):
     tick(now)                    the driver moved the virtual clock (monotone)
     waitStart(p, mode, timeout)  BEFORE Wait ("wait") / WaitWithTimeout(timeout) ("timed") is called
     clk(now)                     the library read the clock (some timed waiter: on entry, and again when woken)
     waitEnd(p, ok, remain)       AFTER it returned: ok = woken by a signal; remain as returned (0 for Wait)
     sigStart(s) / sigEnd(s)      around Signal
   Deliver(s, p) is the only unlogged step: signal s wakes waiter p (both calls in progress).

   What is demanded:
     OneWake     a Signal wakes at most one waiter; a waiter that returns ok was woken by exactly one Signal
     Lossy       a waiter can only be woken by a Signal whose call overlaps its own call (nothing is remembered)
     Remain      a timed waiter woken by a signal returns timeout - (clock when woken - clock on entry);
                 a timed waiter that timed out returns (0, false) and consumed no signal
   That a parked waiter IS woken is exercised by the driver (it signals until the waiter is back; a waiter
   that never returns ends up as a "stuck" event, for which there is no action).
   Nothing here says when a real-time timeout fires.                                                  *)
EXTENDS Integers, Sequences, FiniteSets, TLC

VARIABLES
  now,    \* virtual clock
  wt,     \* waiter |-> [mode, timeout, begin, wake, woken]    begin / wake: -1 = not read yet
  sg      \* pending Signal |-> delivered?

cvars == <<now, wt, sg>>
EmptyFn == [x \in {} |-> 0]
Put(f, x, y) == [z \in DOMAIN f \cup {x} |-> IF z = x THEN y ELSE f[z]]
Drop(f, x) == [z \in DOMAIN f \ {x} |-> f[z]]

CStart == now = 1 /\ wt = EmptyFn /\ sg = EmptyFn
CReset(t) == now' = t /\ wt' = EmptyFn /\ sg' = EmptyFn

TickOK(t) == t >= now
TickEff(t) == now' = t /\ UNCHANGED <<wt, sg>>

WaitStartOK(p, mode) == p \notin DOMAIN wt /\ mode \in {"wait", "timed"}
WaitStartEff(p, mode, timeout) ==
  /\ wt' = Put(wt, p, [mode |-> mode, timeout |-> timeout, begin |-> -1, wake |-> -1, woken |-> FALSE])
  /\ UNCHANGED <<now, sg>>

\* the library read the clock: a timed waiter on entry, or a woken timed waiter computing what is left
ClkOK(p, t) ==
  /\ p \in DOMAIN wt /\ wt[p].mode = "timed" /\ t = now
  /\ \/ wt[p].begin = -1
     \/ wt[p].begin # -1 /\ wt[p].woken /\ wt[p].wake = -1
ClkEff(p, t) ==
  /\ wt' = IF wt[p].begin = -1 THEN [wt EXCEPT ![p].begin = t] ELSE [wt EXCEPT ![p].wake = t]
  /\ UNCHANGED <<now, sg>>

SigStartOK(s) == s \notin DOMAIN sg
SigStartEff(s) == sg' = Put(sg, s, FALSE) /\ UNCHANGED <<now, wt>>
SigEndOK(s) == s \in DOMAIN sg
SigEndEff(s) == sg' = Drop(sg, s) /\ UNCHANGED <<now, wt>>

\* unlogged: a pending signal is handed to a pending waiter             (OneWake, Lossy)
DeliverOK(s, p) ==
  /\ s \in DOMAIN sg /\ ~sg[s] /\ p \in DOMAIN wt /\ ~wt[p].woken
  /\ wt[p].mode = "timed" => wt[p].begin # -1          \* the clock is read before the waiter starts listening
DeliverEff(s, p) == sg' = [sg EXCEPT ![s] = TRUE] /\ wt' = [wt EXCEPT ![p].woken = TRUE] /\ UNCHANGED now

WaitEndOK(p, ok, remain) ==
  /\ p \in DOMAIN wt
  /\ IF wt[p].mode = "wait" THEN ok /\ wt[p].woken /\ remain = 0
     ELSE IF ok THEN /\ wt[p].woken /\ wt[p].wake # -1
                     /\ remain = wt[p].timeout - (wt[p].wake - wt[p].begin)          \* Remain
     ELSE ~wt[p].woken /\ remain = 0 /\ wt[p].begin # -1
WaitEndEff(p) == wt' = Drop(wt, p) /\ UNCHANGED <<now, sg>>

CTypeOK ==
  /\ \A p \in DOMAIN wt : wt[p].mode \in {"wait", "timed"} /\ (wt[p].wake # -1 => wt[p].woken)
  /\ \A s \in DOMAIN sg : sg[s] \in BOOLEAN
=============================================================================
