SPECIFICATION ISpec
CONSTANTS
  N = 2
  C = 2
  MaxPush = 5
  MaxGet = 6
  Variant = "ok"
  Mode = "rtc"
  Emit = TRUE
  MinCmd = 5
  MaxCmd = 12
INVARIANTS Refines PrintHist
VIEW View
CHECK_DEADLOCK FALSE
