------------------------------ MODULE Atomics ------------------------------
(* Layer P (extension "syncxobjs", host C05): the small synchronisation objects of core/syncx as
   LINEARIZABLE objects -- every call takes effect at one instant between its start and its end, and the
   answers are those of the sequential object below.  One spec serves every object (field kind of the
   reset event):

     "spin"     SpinLock          lock (blocks while held) / trylock -> 0|1 / unlock
                                  "A SpinLock is used as a lock a fast execution."  (mutual exclusion)
     "once"     OnceGuard         take -> 0|1 / taken -> 0|1
                                  "An OnceGuard is used to make sure a resource can be taken once."
     "abool"    AtomicBool        cas(a, b) -> 0|1 / set(a) / true -> 0|1
                                  "CompareAndSwap compares current value with given old, if equals, set to given val."
     "adur"     AtomicDuration    cas(a, b) -> 0|1 / set(a) / load -> value          (values: small integers, in ns)
                                  "CompareAndSwap compares current value with old, if equals, set the value to val."
     "afloat"   AtomicFloat64     cas(a, b) -> 0|1 / set(a) / load -> value / add(a) -> new value   (integral floats)
                                  "Add adds val to current value."  atomicfloat64_test.go: 5 x 100 racing Add(1) on
                                  100 give 600 -- no update is lost.
     "done"     DoneChan          close / isdone -> 0|1 (a non-blocking receive from Done()) / wait (a blocking receive
                                  from Done(): returns only once closed)
                                  "Close closes dc, it's safe to close more than once."
                                  "Done returns a channel that can be notified on dc closed."
     "barrier"  Barrier.Guard     guard(fn): fn runs under the barrier's lock (events enter / exit inside fn);
                                  a panic of fn leaves the barrier free and reaches the caller (res 1)
     "ref"      RefResource       use -> 0 | 1 (ErrUseOfCleaned) / clean; callback event cleanRun
                                  "Use uses the resource with reference count incremented."
                                  "Clean cleans a resource with reference count decremented."
                                  refresource_test.go: the clean function runs exactly once, when the count
                                  drops to zero; afterwards Clean is a no-op and Use fails.
                                  Premise: Clean is only called by a holder of a reference, or after cleaning.
     "managed"  ManagedResource   take -> id / broken(id); callback event gen(id) (generate returns a fresh id)
                                  "Take takes the resource, if not loaded, generates it."
                                  "MarkBroken marks the resource broken."   generate is called only when there is
                                  no resource, under the lock: at most one generation per breakage.

   Events:
     callStart(p, op, a, b)   logged BEFORE process p calls the library
     callEnd(p, res)          logged AFTER the call returned (res 2 = the call panicked, never admitted)
     enter(p) / exit(p, out)  inside the function passed to Barrier.Guard
     cleanRun                 inside RefResource's clean function
     gen(id)                  inside ManagedResource's generate function
   Lin(p) is the only unlogged step (TLC infers it during trace validation); where the library calls back
   into the harness while it holds its lock (enter, exit, cleanRun, gen) the callback event IS the
   linearization point.                                                                              *)
EXTENDS Integers, Sequences, FiniteSets, TLC

VARIABLES
  kind,   \* which object
  st,     \* its sequential state: spin/once/abool/done/barrier: 0|1;  adur/afloat: the value;  ref: [ref, cleaned];
          \* managed: current id (0 = none)
  pend,   \* process |-> [op, a, b, lin, res]   calls in progress
  aux     \* ref: number of cleanRun seen; managed: set of generated ids; barrier: process inside (0 = none)

avars == <<kind, st, pend, aux>>
EmptyFn == [x \in {} |-> 0]
Put(f, x, y) == [z \in DOMAIN f \cup {x} |-> IF z = x THEN y ELSE f[z]]
Drop(f, x) == [z \in DOMAIN f \ {x} |-> f[z]]
Kinds == {"spin", "once", "abool", "adur", "afloat", "done", "barrier", "ref", "managed"}

Ops(k) ==
  CASE k = "spin"    -> {"lock", "trylock", "unlock"}
    [] k = "once"    -> {"take", "taken"}
    [] k = "abool"   -> {"cas", "set", "true"}
    [] k = "adur"    -> {"cas", "set", "load"}
    [] k = "afloat"  -> {"cas", "set", "load", "add"}
    [] k = "done"    -> {"close", "isdone", "wait"}
    [] k = "barrier" -> {"guard"}
    [] k = "ref"     -> {"use", "clean"}
    [] k = "managed" -> {"take", "broken"}

\* s0: the value given to ForAtomicBool / ForAtomicDuration / ForAtomicFloat64 (ignored by the other kinds)
St0(k, s0) ==
  CASE k = "ref" -> [ref |-> 0, cleaned |-> FALSE]
    [] k \in {"abool", "adur", "afloat"} -> s0
    [] OTHER -> 0
Aux0(k) == IF k = "managed" THEN {} ELSE 0

AStart(k, s0) == kind = k /\ st = s0 /\ pend = EmptyFn /\ aux = Aux0(k)
AReset(k, s0) == kind' = k /\ st' = s0 /\ pend' = EmptyFn /\ aux' = Aux0(k)

\* ---- the sequential objects: is the silent linearization enabled, next state, answer ----
LinEnabled(k, s, c) ==
  CASE k = "spin" /\ c.op = "lock" -> s = 0                                   \* Lock waits while held
    [] k = "done" /\ c.op = "wait" -> s = 1                                   \* <-Done() returns only once closed
    [] k = "barrier" -> FALSE                                                 \* enter / exit are logged
    [] k = "ref" /\ c.op = "clean" -> s.cleaned \/ s.ref # 1                  \* the cleaning Clean is the cleanRun event
    [] k = "managed" /\ c.op = "take" -> s # 0                                \* the generating Take is the gen event
    [] OTHER -> TRUE

LinState(k, s, c) ==
  CASE k = "spin" -> (CASE c.op = "lock" -> 1 [] c.op = "trylock" -> 1 [] c.op = "unlock" -> 0)
    [] k = "once" -> IF c.op = "take" THEN 1 ELSE s
    [] k = "abool" -> (CASE c.op = "cas" -> (IF s = c.a THEN c.b ELSE s) [] c.op = "set" -> c.a [] c.op = "true" -> s)
    [] k \in {"adur", "afloat"} ->
         (CASE c.op = "cas" -> (IF s = c.a THEN c.b ELSE s) [] c.op = "set" -> c.a [] c.op = "load" -> s [] c.op = "add" -> s + c.a)
    [] k = "done" -> IF c.op = "close" THEN 1 ELSE s
    [] k = "ref" -> (CASE c.op = "use" -> (IF s.cleaned THEN s ELSE [s EXCEPT !.ref = @ + 1])
                       [] c.op = "clean" -> (IF s.cleaned THEN s ELSE [s EXCEPT !.ref = @ - 1]))
    [] k = "managed" -> IF c.op = "broken" /\ s = c.a THEN 0 ELSE s
    [] OTHER -> s

LinRes(k, s, c) ==
  CASE k = "spin" -> (IF c.op = "trylock" THEN (IF s = 0 THEN 1 ELSE 0) ELSE 0)
    [] k = "once" -> (IF c.op = "take" THEN (IF s = 0 THEN 1 ELSE 0) ELSE s)
    [] k = "abool" -> (CASE c.op = "cas" -> (IF s = c.a THEN 1 ELSE 0) [] c.op = "set" -> 0 [] c.op = "true" -> s)
    [] k \in {"adur", "afloat"} ->
         (CASE c.op = "cas" -> (IF s = c.a THEN 1 ELSE 0) [] c.op = "set" -> 0 [] c.op = "load" -> s [] c.op = "add" -> s + c.a)
    [] k = "done" -> IF c.op = "isdone" THEN s ELSE 0
    [] k = "ref" -> IF c.op = "use" /\ s.cleaned THEN 1 ELSE 0
    [] k = "managed" -> IF c.op = "take" THEN s ELSE 0
    [] OTHER -> 0

\* ---- events ----
CallStartOK(p, op) == p \notin DOMAIN pend /\ op \in Ops(kind)
CallStartEff(p, op, a, b) ==
  /\ pend' = Put(pend, p, [op |-> op, a |-> a, b |-> b, lin |-> FALSE, res |-> 0])
  /\ UNCHANGED <<kind, st, aux>>

LinOK(p) == p \in DOMAIN pend /\ ~pend[p].lin /\ LinEnabled(kind, st, pend[p])
LinEff(p) ==
  /\ st' = LinState(kind, st, pend[p])
  /\ pend' = [pend EXCEPT ![p].lin = TRUE, ![p].res = LinRes(kind, st, pend[p])]
  /\ UNCHANGED <<kind, aux>>

CallEndOK(p, res) == p \in DOMAIN pend /\ pend[p].lin /\ pend[p].res = res
CallEndEff(p) == pend' = Drop(pend, p) /\ UNCHANGED <<kind, st, aux>>

\* Barrier.Guard: the function runs under the lock -- nobody else is inside
EnterOK(p) == kind = "barrier" /\ p \in DOMAIN pend /\ ~pend[p].lin /\ pend[p].a = 0 /\ st = 0 /\ aux = 0
EnterEff(p) == st' = 1 /\ aux' = p /\ pend' = [pend EXCEPT ![p].a = 1] /\ UNCHANGED kind
ExitOK(p, out) == kind = "barrier" /\ aux = p /\ p \in DOMAIN pend /\ out \in {"ret", "panic"}
ExitEff(p, out) ==
  /\ st' = 0 /\ aux' = 0
  /\ pend' = [pend EXCEPT ![p].lin = TRUE, ![p].res = IF out = "panic" THEN 1 ELSE 0]
  /\ UNCHANGED kind

\* RefResource: the clean function runs inside the Clean call that takes the count from 1 to 0, once
CleanRunOK(p) ==
  /\ kind = "ref" /\ p \in DOMAIN pend /\ pend[p].op = "clean" /\ ~pend[p].lin
  /\ ~st.cleaned /\ st.ref = 1
CleanRunEff(p) ==
  /\ st' = [ref |-> 0, cleaned |-> TRUE] /\ aux' = aux + 1
  /\ pend' = [pend EXCEPT ![p].lin = TRUE, ![p].res = 0]
  /\ UNCHANGED kind

\* ManagedResource: generate runs inside a Take that found nothing, and what it returns is what Take answers
GenOK(p, id) ==
  /\ kind = "managed" /\ p \in DOMAIN pend /\ pend[p].op = "take" /\ ~pend[p].lin
  /\ st = 0 /\ id # 0 /\ id \notin aux
GenEff(p, id) ==
  /\ st' = id /\ aux' = aux \cup {id}
  /\ pend' = [pend EXCEPT ![p].lin = TRUE, ![p].res = id]
  /\ UNCHANGED kind

\* ---- sanity ----
ATypeOK ==
  /\ kind \in Kinds
  /\ \A p \in DOMAIN pend : pend[p].op \in Ops(kind)
  /\ kind = "ref" => (st.cleaned <=> aux = 1) /\ aux \in {0, 1}               \* clean runs exactly once, iff cleaned
  /\ kind = "barrier" => (st = 1 <=> aux # 0)
=============================================================================
