SPECIFICATION MSpec
CONSTANTS
  KSet = {"spin", "once", "abool", "adur", "afloat", "done", "barrier", "ref", "managed"}
  Procs = {1, 2}
  MaxOps = 6
  OneAtATime = TRUE
  Emit = TRUE
INVARIANTS ATypeOK PrintHist
VIEW View
CHECK_DEADLOCK FALSE
