SPECIFICATION MSpec
CONSTANTS
  KSet = {"spin", "once", "abool", "done", "barrier", "ref", "managed"}
  Procs = {1}
  MaxOps = 6
  OneAtATime = TRUE
  Emit = TRUE
INVARIANTS ATypeOK PrintHist
VIEW View
CHECK_DEADLOCK FALSE
