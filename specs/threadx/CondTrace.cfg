SPECIFICATION TSpec
CONSTRAINT HW
INVARIANTS CTypeOK
POSTCONDITION Accepted
CHECK_DEADLOCK FALSE
