SPECIFICATION ISpec
CONSTANTS
  Procs = {1, 2, 3}
  MaxOps = 4
  Kind = "afloat"
  Variant = "ok"
  Init = 1
INVARIANTS Refines Agree ATypeOK
CHECK_DEADLOCK FALSE
