SPECIFICATION ISpec
CONSTANTS
  N = 1
  C = 1
  MaxPush = 2
  MaxGet = 3
  Variant = "getnocheck"
  Mode = "free"
  Emit = FALSE
  MinCmd = 96
  MaxCmd = 99
INVARIANTS Refines
VIEW View
CHECK_DEADLOCK FALSE
