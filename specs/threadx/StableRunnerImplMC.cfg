SPECIFICATION ISpec
CONSTANTS
  N = 1
  C = 2
  MaxPush = 4
  MaxGet = 5
  Variant = "ok"
  Mode = "free"
  Emit = FALSE
  MinCmd = 96
  MaxCmd = 99
INVARIANTS Refines ITypeOK Agree DeadEndsAreComplete SRTypeOK CapSafe TakenAreDone StartedHaveRoom WaitedMeansDrained
VIEW View
CHECK_DEADLOCK FALSE
