------------------------------ MODULE GroupTrace ------------------------------
(* Trace validation: events recorded from the real threading.RoutineGroup / WorkerGroup / GoSafe /
   RunSafe must be a behaviour of Group.tla.  No unlogged steps: validation is deterministic.
   No action for the driver's "stuck" event.                                               *)
EXTENDS Group, TraceKit

VARIABLE l
tvars == <<gvars, l>>

E == Trace[l]
IsEvent(e) == l <= Len(Trace) /\ E.e = e /\ l' = l + 1

TReset      == IsEvent("reset")      /\ E.m = "grp" /\ GReset
TSpawnStart == IsEvent("spawnStart") /\ SpawnStartOK(E.i, E.how) /\ SpawnStartEff(E.i, E.how)
TSpawnEnd   == IsEvent("spawnEnd")   /\ SpawnEndOK(E.i) /\ SpawnEndEff(E.i)
TFStart     == IsEvent("fStart")     /\ FStartOK(E.i) /\ FStartEff(E.i)
TFEnd       == IsEvent("fEnd")       /\ FEndOK(E.i, E.out) /\ FEndEff(E.i)
TWaitStart  == IsEvent("waitStart")  /\ WaitStartOK(E.w) /\ WaitStartEff(E.w)
TWaitEnd    == IsEvent("waitEnd")    /\ WaitEndOK(E.w) /\ WaitEndEff(E.w)
TWgStart    == IsEvent("wgStart")    /\ WgStartOK(E.k, E.workers) /\ WgStartEff(E.k, E.workers)
TJStart     == IsEvent("jStart")     /\ JStartOK(E.k, E.j) /\ JStartEff(E.k, E.j)
TJEnd       == IsEvent("jEnd")       /\ JEndOK(E.k, E.j, E.out) /\ JEndEff(E.k, E.j)
TWgEnd      == IsEvent("wgEnd")      /\ WgEndOK(E.k) /\ WgEndEff(E.k)

TInit == GStart /\ l = 1
TNext == \/ TReset \/ TSpawnStart \/ TSpawnEnd \/ TFStart \/ TFEnd \/ TWaitStart \/ TWaitEnd
         \/ TWgStart \/ TJStart \/ TJEnd \/ TWgEnd
TSpec == TInit /\ [][TNext]_tvars

HW == HighWater(l)
=============================================================================
