----------------------------- MODULE AtomicsImpl -----------------------------
(* Layer I: the two objects of Atomics.tla whose methods are loops over an atomic word, as written, against the
   guards of Atomics.tla (every other kind is one atomic instruction or one mutex-protected block per method).

   Kind = "afloat"   core/syncx/atomicfloat64.go
        Add(v):  for { old := f.Load(); nv := old + v; if f.CompareAndSwap(old, nv) { return nv } }
        Set / CompareAndSwap / Load: one atomic instruction each
   Kind = "spin"     core/syncx/spinlock.go
        Lock():     for !sl.TryLock() { runtime.Gosched() }
        TryLock():  atomic.CompareAndSwapUint32(&sl.lock, 0, 1)
        Unlock():   atomic.StoreUint32(&sl.lock, 0)          (called by the holder)

   Linearization points: the successful compare-and-swap (Add, Lock, TryLock), the failing one for a TryLock
   that answers false, the single instruction otherwise.
   Variant = "ok" | "addstore" (Add stores old + v without comparing: a racing update is lost)
                  | "tas" (TryLock tests, then sets in a second instruction: two holders).                    *)
EXTENDS Atomics

CONSTANTS Procs, MaxOps, Kind, Variant, Init

VARIABLES
  word,      \* the atomic word
  pc, loc,   \* per process: program counter; [a, b, old, ret]
  held,      \* processes that were told they hold the lock (so that only a holder unlocks)
  nops, viol

ivars == <<word, pc, loc, held, nops>>
vars == <<avars, ivars, viol>>

L0 == [a |-> 0, b |-> 0, old |-> 0, ret |-> 0]
IInit ==
  /\ AStart(Kind, St0(Kind, Init)) /\ word = (IF Kind = "afloat" THEN Init ELSE 0)
  /\ pc = [p \in Procs |-> "idle"] /\ loc = [p \in Procs |-> L0]
  /\ held = {} /\ nops = 0 /\ viol = ""

Obs(name, ok) == viol' = IF viol = "" /\ ~ok THEN name ELSE viol
Silent == UNCHANGED <<avars, viol>>
Go(p, to) == pc' = [pc EXCEPT ![p] = to]
Start(p, op, a, b, to) ==
  /\ pc[p] = "idle" /\ nops < MaxOps /\ nops' = nops + 1 /\ Go(p, to)
  /\ loc' = [loc EXCEPT ![p] = [L0 EXCEPT !.a = a, !.b = b]]
  /\ Obs("callStart", CallStartOK(p, op)) /\ CallStartEff(p, op, a, b)
  /\ UNCHANGED <<word, held>>
LinHere(p) == Obs("lin", LinOK(p)) /\ LinEff(p)

\* ---------------------------------------------------------------- AtomicFloat64
AddStart(p) == Kind = "afloat" /\ \E a \in {1, 2} : Start(p, "add", a, 0, "a_load")
AddLoad(p) ==
  /\ pc[p] = "a_load" /\ loc' = [loc EXCEPT ![p].old = word] /\ Go(p, "a_cas")
  /\ Silent /\ UNCHANGED <<word, held, nops>>
AddCas(p) ==
  /\ pc[p] = "a_cas"
  /\ IF word = loc[p].old \/ Variant = "addstore"
       THEN /\ word' = loc[p].old + loc[p].a /\ loc' = [loc EXCEPT ![p].ret = loc[p].old + loc[p].a]
            /\ LinHere(p) /\ Go(p, "ret")
       ELSE /\ Go(p, "a_load") /\ Silent /\ UNCHANGED <<word, loc>>
  /\ UNCHANGED <<held, nops>>
SetStart(p) == Kind = "afloat" /\ \E a \in {5} : Start(p, "set", a, 0, "s_do")
SetDo(p) ==
  /\ pc[p] = "s_do" /\ word' = loc[p].a /\ LinHere(p) /\ Go(p, "ret") /\ UNCHANGED <<loc, held, nops>>
CasStart(p) == Kind = "afloat" /\ \E ab \in {<<2, 5>>} : Start(p, "cas", ab[1], ab[2], "c_do")
CasDo(p) ==
  /\ pc[p] = "c_do"
  /\ word' = (IF word = loc[p].a THEN loc[p].b ELSE word)
  /\ loc' = [loc EXCEPT ![p].ret = IF word = loc[p].a THEN 1 ELSE 0]
  /\ LinHere(p) /\ Go(p, "ret") /\ UNCHANGED <<held, nops>>
LoadStart(p) == Kind = "afloat" /\ Start(p, "load", 0, 0, "l_do")
LoadDo(p) ==
  /\ pc[p] = "l_do" /\ loc' = [loc EXCEPT ![p].ret = word]
  /\ LinHere(p) /\ Go(p, "ret") /\ UNCHANGED <<word, held, nops>>

\* ---------------------------------------------------------------- SpinLock
LockStart(p) == Kind = "spin" /\ p \notin held /\ Start(p, "lock", 0, 0, "k_try")
TryStart(p) == Kind = "spin" /\ p \notin held /\ Start(p, "trylock", 0, 0, "t_try")
\* TryLock, inside Lock (k_) or on its own (t_)
TryCas(p) ==
  /\ pc[p] \in {"k_try", "t_try"} /\ Variant # "tas"
  /\ IF word = 0
       THEN /\ word' = 1 /\ loc' = [loc EXCEPT ![p].ret = IF pc[p] = "t_try" THEN 1 ELSE 0]
            /\ LinHere(p) /\ Go(p, "ret")
       ELSE IF pc[p] = "t_try"
         THEN /\ LinHere(p) /\ Go(p, "ret") /\ UNCHANGED <<word, loc>>           \* answers false
         ELSE /\ Go(p, "k_yield") /\ Silent /\ UNCHANGED <<word, loc>>
  /\ UNCHANGED <<held, nops>>
TryTest(p) ==                                                                     \* wrong variant: test ...
  /\ pc[p] \in {"k_try", "t_try"} /\ Variant = "tas"
  /\ IF word = 0
       THEN /\ Go(p, IF pc[p] = "t_try" THEN "t_set" ELSE "k_set") /\ Silent /\ UNCHANGED <<word, loc>>
       ELSE IF pc[p] = "t_try"
         THEN /\ LinHere(p) /\ Go(p, "ret") /\ UNCHANGED <<word, loc>>
         ELSE /\ Go(p, "k_yield") /\ Silent /\ UNCHANGED <<word, loc>>
  /\ UNCHANGED <<held, nops>>
TrySet(p) ==                                                                      \* ... and set
  /\ pc[p] \in {"k_set", "t_set"}
  /\ word' = 1 /\ loc' = [loc EXCEPT ![p].ret = IF pc[p] = "t_set" THEN 1 ELSE 0]
  /\ LinHere(p) /\ Go(p, "ret") /\ UNCHANGED <<held, nops>>
LockYield(p) == pc[p] = "k_yield" /\ Go(p, "k_try") /\ Silent /\ UNCHANGED <<word, loc, held, nops>>
UnlockStart(p) == Kind = "spin" /\ p \in held /\ Start(p, "unlock", 0, 0, "u_do")
UnlockDo(p) ==
  /\ pc[p] = "u_do" /\ word' = 0 /\ LinHere(p) /\ Go(p, "ret") /\ held' = held \ {p} /\ UNCHANGED <<loc, nops>>

End(p) ==
  /\ pc[p] = "ret" /\ Go(p, "idle")
  /\ Obs("callEnd", CallEndOK(p, loc[p].ret)) /\ CallEndEff(p)
  /\ held' = IF Kind = "spin" /\ (pend[p].op = "lock" \/ (pend[p].op = "trylock" /\ loc[p].ret = 1))
               THEN held \cup {p} ELSE held
  /\ UNCHANGED <<word, loc, nops>>

INext == \E p \in Procs :
  \/ AddStart(p) \/ AddLoad(p) \/ AddCas(p) \/ SetStart(p) \/ SetDo(p) \/ CasStart(p) \/ CasDo(p)
  \/ LoadStart(p) \/ LoadDo(p)
  \/ LockStart(p) \/ TryStart(p) \/ TryCas(p) \/ TryTest(p) \/ TrySet(p) \/ LockYield(p)
  \/ UnlockStart(p) \/ UnlockDo(p) \/ End(p)
ISpec == IInit /\ [][INext]_vars

Refines == viol = ""
Agree == word = st
MutualExclusion == Kind = "spin" => Cardinality(held) <= 1
=============================================================================
