------------------------------- MODULE CondMC -------------------------------
(* Cond.tla on its own: waiters, signallers and a clock that moves, against the most liberal Cond the
   property admits.  Sanity: never more wake-ups than signals, the remaining time is never more than the
   timeout, no dead action.                                                                          *)
EXTENDS Cond

CONSTANTS Waiters, Signals, MaxTick, Timeouts

VARIABLES used, woke, sigs
mvars == <<cvars, used, woke, sigs>>

MInit == CStart /\ used = {} /\ woke = 0 /\ sigs = 0
Tick == now < MaxTick /\ TickOK(now + 1) /\ TickEff(now + 1) /\ UNCHANGED <<used, woke, sigs>>
WaitStart == \E p \in Waiters \ used, m \in {"wait", "timed"}, t \in Timeouts :
               WaitStartOK(p, m) /\ WaitStartEff(p, m, t) /\ used' = used \cup {p} /\ UNCHANGED <<woke, sigs>>
Clk == \E p \in DOMAIN wt : ClkOK(p, now) /\ ClkEff(p, now) /\ UNCHANGED <<used, woke, sigs>>
SigStart == \E s \in Signals \ used : SigStartOK(s) /\ SigStartEff(s) /\ used' = used \cup {s} /\ sigs' = sigs + 1 /\ UNCHANGED woke
SigEnd == \E s \in DOMAIN sg : SigEndOK(s) /\ SigEndEff(s) /\ UNCHANGED <<used, woke, sigs>>
Deliver == \E s \in DOMAIN sg, p \in DOMAIN wt : DeliverOK(s, p) /\ DeliverEff(s, p) /\ UNCHANGED <<used, woke, sigs>>
WaitEndOk == \E p \in DOMAIN wt, r \in -MaxTick..10 :
               WaitEndOK(p, TRUE, r) /\ WaitEndEff(p) /\ woke' = woke + 1 /\ UNCHANGED <<used, sigs>>
WaitEndTimeout == \E p \in DOMAIN wt : WaitEndOK(p, FALSE, 0) /\ WaitEndEff(p) /\ UNCHANGED <<used, woke, sigs>>
MNext == Tick \/ WaitStart \/ Clk \/ SigStart \/ SigEnd \/ Deliver \/ WaitEndOk \/ WaitEndTimeout
MSpec == MInit /\ [][MNext]_mvars

NoSpuriousWake == woke + Cardinality({p \in DOMAIN wt : wt[p].woken}) <= sigs
=============================================================================
