SPECIFICATION MSpec
CONSTANTS
  Waiters = {1, 2, 3}
  Signals = {11, 12}
  MaxTick = 3
  Timeouts = {5}
INVARIANTS CTypeOK NoSpuriousWake
CHECK_DEADLOCK FALSE
