SPECIFICATION ISpec
CONSTANTS
  Procs = {1, 2}
  MaxOps = 3
  Kind = "afloat"
  Variant = "addstore"
  Init = 1
INVARIANTS Refines Agree
CHECK_DEADLOCK FALSE
