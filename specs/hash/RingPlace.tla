----------------------------- MODULE RingPlace -----------------------------
(* The reference placement of a consistent-hash ring, derived from the member map alone
   (that derivation IS history independence): virtual node i of node n sits at position
   vh[n][i] (i = 1..cap, Go's replica index + 1), key k hashes to kh[k]; the key belongs to
   the first occupied position >= kh[k], wrapping to the smallest one.  Positions are only
   compared (the driver logs RANKS of the 64-bit hash values).  Where several nodes share
   the position (vh collides) the reference says "one of them"; RingImpl.tla makes that
   choice like the code does.

   Used by RingImpl.tla (exhaustive check that go-zero's keys/ring/nodes algorithm computes
   this placement and that the placement satisfies the property) and by RingTrace.tla with
   CheckPlacement = TRUE (conformance of the real code to the placement model; NOT part of
   the property verdict).                                                                 *)
EXTENDS RingProps

Replicas(m, n) == 1..m[n].r

PointsOf(vh, m) == UNION {{vh[n][i] : i \in Replicas(m, n)} : n \in InRing(m)}

SetMin(S) == CHOOSE x \in S : \A y \in S : x <= y

FirstPoint(pts, h) ==
  LET ge == {p \in pts : p >= h} IN IF ge # {} THEN SetMin(ge) ELSE SetMin(pts)

Sharers(vh, m, p) == {n \in InRing(m) : \E i \in Replicas(m, n) : vh[n][i] = p}

\* the nodes key hash h may legally be answered with; {} = no node
Candidates(vh, m, h) ==
  LET pts == PointsOf(vh, m) IN IF pts = {} THEN {} ELSE Sharers(vh, m, FirstPoint(pts, h))

PlacedOK(vh, kh, m, a) ==
  LET pts == PointsOf(vh, m) IN
    \A k \in DOMAIN a :
       IF pts = {} THEN a[k] = None ELSE a[k] \in Sharers(vh, m, FirstPoint(pts, kh[k]))

\* no two DISTINCT nodes have a virtual node (used or not) on the same position
NoCollision(vh, NodeSet) ==
  \A n1, n2 \in NodeSet : n1 # n2 =>
     \A i \in DOMAIN vh[n1], j \in DOMAIN vh[n2] : vh[n1][i] # vh[n2][j]

(* highest-random-weight choice among the sharers of a position: sc[n] is the score of node n
   for the key, ties broken by the smaller node (node ids are ordered like the node
   representations).  Choosing the maximum of a key-dependent total order over a set is what
   makes the choice order-free and minimally disruptive.                                   *)
Better(sc, n1, n2) == sc[n1] > sc[n2] \/ (sc[n1] = sc[n2] /\ n1 < n2)
Rendezvous(S, sc) == CHOOSE n \in S : \A x \in S \ {n} : Better(sc, n, x)
=============================================================================
