SPECIFICATION ISpec
CONSTANTS
  Nodes = {1, 2}
  Cap = 1
  P = 2
  Variant = "orig"
  Collide = "any"
  Rot = FALSE
  IHRange = {0, 1}
  SCRange = {0}
  Reps = {0, 1, 2}
  Weights = {50, 100}
  MaxOps = 0
  Emit = FALSE
  ReprOf <- ReprId
INVARIANTS HistoryIndependent
VIEW View
CHECK_DEADLOCK FALSE
