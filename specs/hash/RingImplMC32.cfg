SPECIFICATION ISpec
CONSTANTS
  Nodes = {1, 2, 3}
  Cap = 2
  P = 6
  Variant = "orig"
  Collide = "none"
  Rot = TRUE
  IHRange = {0}
  SCRange = {0}
  Reps = {0, 1, 2, 3}
  Weights = {50, 100}
  MaxOps = 0
  Emit = FALSE
  ReprOf <- ReprId
INVARIANTS MemberOnly Disruption HistoryIndependent Placement StructureOK
VIEW View
CHECK_DEADLOCK FALSE
