SPECIFICATION Spec
CONSTANTS
  Widths = {2, 3, 4}
  Fmt = "narrow"
INVARIANTS Faithful
CHECK_DEADLOCK FALSE
