SPECIFICATION Spec
CONSTANTS
  Widths = {2, 3, 4}
  Fmt = "pertype"
INVARIANTS Faithful
CHECK_DEADLOCK FALSE
