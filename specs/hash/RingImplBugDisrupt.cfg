SPECIFICATION ISpec
CONSTANTS
  Nodes = {1, 2, 3}
  Cap = 1
  P = 2
  Variant = "orig"
  Collide = "any"
  Rot = FALSE
  IHRange = {0, 1, 2, 3, 4, 5}
  SCRange = {0}
  Reps = {}
  Weights = {}
  MaxOps = 0
  Emit = FALSE
  ReprOf <- ReprId
INVARIANTS Disruption
VIEW View
CHECK_DEADLOCK FALSE
