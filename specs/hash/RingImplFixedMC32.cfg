SPECIFICATION ISpec
CONSTANTS
  Nodes = {1, 2, 3}
  Cap = 2
  P = 3
  Variant = "fixed"
  Collide = "any"
  Rot = TRUE
  IHRange = {0}
  SCRange = {0, 1}
  Reps = {0, 1, 2}
  Weights = {50}
  MaxOps = 0
  Emit = FALSE
  ReprOf <- ReprId
INVARIANTS MemberOnly Disruption HistoryIndependent Placement StructureOK
VIEW View
CHECK_DEADLOCK FALSE
