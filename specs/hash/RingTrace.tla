----------------------------- MODULE RingTrace -----------------------------
(* Trace validation for C15.  One trace = one hash function + one probe-key set + any number
   of ring instances (hash.ConsistentHash objects, cache clusters, kv stores); after every
   operation the driver looks every probe key up and logs the owners ("got": node ids,
   0 = (nil,false), -1 = Get panicked) and the (node, Go value) pairs returned ("forms").
   reset.vals (optional) describes the Go values behind the node ids: nodes are numbered by NAME
   (Ring.tla ValsOK, RingRepr.tla), which the driver derives from the typed value, not from
   lang.Repr; returned values are mapped back to (node, form) by Go equality with those values.

   CheckPlacement = FALSE (RingTrace.cfg): the recorded events must be a behaviour of Ring.tla
     -- the property, nothing else.  This is the verdict.
   CheckPlacement = TRUE (RingPlaceTrace.cfg): additionally every answer must be a node that
     shares the first occupied position at/after the key's hash, computed by RingPlace.tla from
     the logged RANKS of the 64-bit hashes (reset.vh[n][i+1] = rank of Hash(repr(n)+itoa(i)),
     reset.kh[k] = rank of Hash(repr(key k))).  This binds the placement model (and thereby
     the exhaustively checked RingImpl.tla) to the code; it demands more than the property
     and is therefore reported as model conformance, never as a violation.                *)
EXTENDS Ring, RingPlace, TraceKit

CONSTANT CheckPlacement

VARIABLES l, tvh, tkh
tvars == <<nodeset, nk, caps, members, assign, memo, vals, l, tvh, tkh>>

E == Trace[l]
IsEvent(e) == l <= Len(Trace) /\ E.e = e /\ l' = l + 1

Forms == {<<p[1], p[2]>> : p \in SeqToSet(E.forms)}
Placed(i) == CheckPlacement => PlacedOK(tvh', tkh', members'[i], E.got)

TReset ==
  /\ IsEvent("reset") /\ PReset(E.nn, E.nk, IF "vals" \in DOMAIN E THEN E.vals ELSE Empty)
  /\ IF CheckPlacement THEN tvh' = E.vh /\ tkh' = E.kh ELSE tvh' = <<>> /\ tkh' = <<>>
TNew   == IsEvent("new")   /\ PNew(E.i, E.cap, E.got)                            /\ UNCHANGED <<tvh, tkh>> /\ Placed(E.i)
TOp    == IsEvent("op")    /\ POp(E.i, E.n, E.kind, E.arg, E.f, E.got, Forms)    /\ UNCHANGED <<tvh, tkh>> /\ Placed(E.i)
TProbe == IsEvent("probe") /\ PProbe(E.i, E.got, Forms)                          /\ UNCHANGED <<tvh, tkh>>
TBuild == IsEvent("build") /\ PBuild(E.i, E.cap, E.ops, E.got, Forms)            /\ UNCHANGED <<tvh, tkh>> /\ Placed(E.i)
TDrop  == IsEvent("drop")  /\ PDrop(E.i)                                         /\ UNCHANGED <<tvh, tkh>>

TInit == RInit /\ l = 1 /\ tvh = <<>> /\ tkh = <<>>
TNext == TReset \/ TNew \/ TOp \/ TProbe \/ TBuild \/ TDrop
TSpec == TInit /\ [][TNext]_tvars

HW == HighWater(l)
=============================================================================
