---------------------------- MODULE RingImplGen ----------------------------
(* Test generation for C15: RingImpl with ONE collision-rich placement shaped like the real
   one of nodes "n", "n1", "n11" ("n"+"1x" = "n1"+"x", "n1"+"1x" = "n11"+"x"): every node has
   a low and a high replica index, the high index of node j collides with the low index of
   node j+1.  With the VIEW, TLC prints one shortest operation history per distinct reachable
   implementation state (member map x insertion order inside the shared buckets x stale
   keys); the Go driver performs each on a fresh real ring.                               *)
EXTENDS RingImpl

GInit ==
  /\ IInit
  /\ vh = <<<<0, 1>>, <<1, 2>>, <<2, 3>>>>
  /\ kh = 0 /\ ih = 0 /\ sc = [n \in Nodes |-> 0]
GSpec == GInit /\ [][INext]_vars
=============================================================================
