SPECIFICATION TSpec
CONSTANTS CheckPlacement = FALSE
CONSTRAINT HW
INVARIANTS MemberOnly RemovedNeverReturned HistoryIndependent
POSTCONDITION Accepted
CHECK_DEADLOCK FALSE
