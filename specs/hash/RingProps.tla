----------------------------- MODULE RingProps -----------------------------
(* C15, the property itself, as predicates over explicit arguments (no state):
   shared by Ring.tla (Layer P, the oracle for recorded traces) and RingImpl.tla
   (Layer I, the go-zero algorithm checked against these predicates by TLC).

   A member map  m : node |-> [r |-> effective replica count >= 0, f |-> form]
   ("form" identifies the Go value last added under that node representation:
   Add(1) and Add("1") are the same node, the later value replaces the earlier).
   An assignment  a : sequence over the probe keys of the owning node, None = no node. *)
EXTENDS Integers, FiniteSets, Sequences, TLC

None  == 0     \* Get returned (nil, false)
Panic == -1    \* Get panicked (recorded by the driver; never a legal answer)

Min(a, b) == IF a < b THEN a ELSE b
Max(a, b) == IF a > b THEN a ELSE b

(* effective number of virtual nodes of one Add* call on a ring whose replica cap is cap:
   Add: cap;  AddWithReplicas(r): truncated to cap;  AddWithWeight(w): w percent of cap. *)
Eff(cap, kind, arg) ==
  CASE kind = "add" -> cap
    [] kind = "rep" -> Min(cap, Max(0, arg))
    [] kind = "wt"  -> Min(cap, Max(0, (cap * arg) \div 100))

InRing(m) == {n \in DOMAIN m : m[n].r > 0}          \* nodes that own at least one virtual node
Shape(m)  == [n \in InRing(m) |-> m[n].r]           \* "the current set of nodes and their replica counts"

Restrict(f, S) == [x \in S |-> f[x]]
AddMember(m, n, r, f) == [x \in DOMAIN m \cup {n} |-> IF x = n THEN [r |-> r, f |-> f] ELSE m[x]]
DelMember(m, n) == Restrict(m, DOMAIN m \ {n})

(* Get always returns one of the nodes currently in the ring, and none when it is empty;
   in particular a removed node is never returned. *)
MemberOnlyOK(m, a) ==
  \A k \in DOMAIN a : IF InRing(m) = {} THEN a[k] = None ELSE a[k] \in InRing(m)

(* the Go value returned is the one most recently added under that representation *)
FormOK(m, fs) == \A p \in fs : p[1] \in DOMAIN m /\ m[p[1]].f = p[2]

(* minimal disruption of one operation on node n (with MemberOnlyOK before and after this
   is exactly: a NEW node only takes keys, a REMOVED node only gives its keys away, a node
   re-added with another replica count / weight only gains or loses keys itself). *)
OnlyToOrFrom(n, old, new) ==
  \A k \in DOMAIN new : new[k] # old[k] => (old[k] = n \/ new[k] = n)

(* two shapes that differ at most in node n *)
DifferOnlyIn(s1, s2, n) ==
  /\ DOMAIN s1 \ {n} = DOMAIN s2 \ {n}
  /\ \A x \in DOMAIN s1 \ {n} : s1[x] = s2[x]

(* history independence: memo remembers, for every shape seen so far on ANY ring instance
   built with the same hash function, the assignment observed with it. *)
DeterministicOK(memo, m, a) ==
  Shape(m) \in DOMAIN memo => memo[Shape(m)] = a

(* the same minimal-disruption law between any two rings (not only consecutive states of
   one ring): follows from the statement because the assignment is a function of the shape. *)
NeighbourOK(memo, m, a, NodeSet) ==
  \A s \in DOMAIN memo : \A n \in NodeSet :
     DifferOnlyIn(s, Shape(m), n) => OnlyToOrFrom(n, memo[s], a)

Remember(memo, m, a) ==
  IF Shape(m) \in DOMAIN memo THEN memo ELSE (Shape(m) :> a) @@ memo
=============================================================================
