SPECIFICATION GSpec
CONSTANTS
  Nodes = {1, 2, 3}
  Cap = 2
  P = 4
  Variant = "orig"
  Collide = "any"
  Rot = FALSE
  IHRange = {0}
  SCRange = {0}
  Reps = {0, 1, 2, 3}
  Weights = {50, 100}
  MaxOps = 0
  Emit = TRUE
  ReprOf <- ReprId
INVARIANTS PrintHist
VIEW View
CHECK_DEADLOCK FALSE
