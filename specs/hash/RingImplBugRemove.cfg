SPECIFICATION ISpec
CONSTANTS
  Nodes = {1, 2}
  Cap = 2
  P = 3
  Variant = "orig"
  Collide = "any"
  Rot = FALSE
  IHRange = {0}
  SCRange = {0}
  Reps = {0, 1, 2, 3}
  Weights = {50, 100}
  MaxOps = 0
  Emit = FALSE
  ReprOf <- ReprId
INVARIANTS StructureOK MemberOnly
VIEW View
CHECK_DEADLOCK FALSE
