SPECIFICATION ISpec
CONSTANTS
  Nodes = {1, 2, 3}
  Cap = 1
  P = 3
  Variant = "fixed"
  Collide = "none"
  Rot = TRUE
  IHRange = {0}
  SCRange = {0}
  Reps = {0, 1}
  Weights = {100}
  MaxOps = 0
  Emit = FALSE
  ReprOf <- ReprTwin
INVARIANTS MemberOnly Disruption HistoryIndependent
VIEW View
CHECK_DEADLOCK FALSE
