----------------------------- MODULE RingImpl -----------------------------
(* Layer I for C15: the algorithm of core/hash/consistenthash.go -- `keys` (sorted slice of
   virtual-node hashes, one entry per virtual node, duplicates when hashes collide), `ring`
   (hash -> slice of nodes in INSERTION order), `nodes` (set of representations) -- for ALL
   placements: the hash values vh (virtual nodes), kh (probe key), ih (inner hash of the
   key) and sc (per-node score of the key) are chosen arbitrarily in the initial state and
   never change.  One probe key suffices: keys do not interact.

   TLC checks, in every reachable state and for every placement,
     MemberOnly        Get answers a member that owns a virtual node (none iff there is none)
     Disruption        the last operation on node n moved keys only to or from n
     HistoryIndependent  Get = Get of a ring freshly built from the member map (ascending order)
     Placement         Get = the reference placement of RingPlace.tla, derived from the member map
     StructureOK       keys/ring/nodes are consistent with the member map
   i.e. that the algorithm satisfies the property predicates of RingProps.tla (Layer P).

   Variant = "orig"  : go-zero as found.  Holds when no two distinct nodes share a virtual-node
                       hash (Collide = "none"); with collisions (which the default murmur3 hash
                       DOES produce: repr(node)+itoa(i) is ambiguous, "a"+"10" = "a1"+"0") the
                       Bug*.cfg configs document three counterexamples.
   Variant = "fixed" : Remove only drops a key whose bucket really held the node; a shared
                       bucket is resolved by highest-random-weight.  Holds for every placement.

   Node identity.  The property speaks about NODES (values: strings, numbers, Stringers); the
   code identifies a node by its representation lang.Repr(node): the `nodes` set, the names of
   the virtual nodes repr+itoa(i) and the comparison in removeRingNode all go through it.
   ReprOf : node |-> representation models that function (RingRepr.tla is its model over typed
   numbers and texts).  ReprOf = ReprId (injective: distinct nodes, distinct representations)
   is what the property needs; RingImplBugRepr.cfg (ReprOf = ReprTwin: two DISTINCT nodes
   formatted alike, e.g. uint64(2^64-7) and int64(-7) by an unsigned-through-signed
   conversion) documents what a non-injective representation does to the ring: the later Add
   evicts the twin (order dependence) and Remove of the one removes the other.             *)
EXTENDS RingPlace, Json

CONSTANTS Nodes,      \* 1..N
          Cap,        \* ConsistentHash.replicas
          P,          \* hash positions 0..P-1
          Variant,    \* "orig" | "fixed"
          Collide,    \* "none": distinct nodes never share a position; "any"
          Rot,        \* TRUE: only placements with vh[1][1] = 0 -- a reduction for the largest configs
                      \* (one placement per rotation class; exact for the reference placement, kh stays
                      \* free so the wrap-around is exercised).  The other configs set it FALSE.
          IHRange,    \* values of the inner hash of the key (orig: index = ih % len(bucket))
          SCRange,    \* scores (fixed: rendezvous)
          Reps,       \* replica counts tried by AddWithReplicas (0..Cap+1 = none .. over the cap)
          Weights,    \* weights tried by AddWithWeight
          MaxOps,     \* bound on the history (generation only; 0 = unbounded)
          Emit,
          ReprOf      \* node |-> the representation the ring knows it by (cfg: ReprOf <- ReprId | ReprTwin)

VARIABLES
  vh, kh, ih, sc,       \* the placement (constant along a behaviour)
  keys, ring, nodes,    \* the implementation state
  mem,                  \* the abstract member map (Layer P state)
  ok,                   \* Layer-P step predicate of the last operation
  hist                  \* operation history (generation; hidden by the VIEW)

pvars == <<vh, kh, ih, sc>>
ivars == <<keys, ring, nodes>>
vars == <<vh, kh, ih, sc, keys, ring, nodes, mem, ok, hist>>

K == 1     \* the probe key

ReprId   == [n \in Nodes |-> n]                              \* lang.Repr is injective on the nodes
ReprTwin == [n \in Nodes |-> IF n = 2 THEN 1 ELSE n]         \* nodes 1 and 2 are formatted alike
R(n) == ReprOf[n]

\* ------------------------------------------------------------------ helpers
RemoveAt(s, j) == SubSeq(s, 1, j - 1) \o SubSeq(s, j + 1, Len(s))
FirstIdx(ks, h) ==                        \* sort.Search(len(keys), keys[i] >= h), 1-based
  LET S == {j \in 1..Len(ks) : ks[j] >= h} IN IF S = {} THEN Len(ks) + 1 ELSE SetMin(S)
Range(s) == {s[j] : j \in DOMAIN s}
FirstOcc(s, x) == SetMin({j \in 1..Len(s) : s[j] = x})
PutF(f, x, v) == [y \in DOMAIN f \cup {x} |-> IF y = x THEN v ELSE f[y]]

\* ------------------------------------------------------------------ Remove
\* one iteration of the loop `for i := 0; i < h.replicas; i++` for replica index i (1-based)
RemStepOrig(ks, rg, n, h) ==
  LET idx == FirstIdx(ks, h)
      ks2 == IF idx <= Len(ks) /\ ks[idx] = h THEN RemoveAt(ks, idx) ELSE ks     \* whoever owns it
      rg2 == IF h \in DOMAIN rg
               THEN LET b == SelectSeq(rg[h], LAMBDA x : R(x) # R(n)) IN
                      IF Len(b) > 0 THEN [rg EXCEPT ![h] = b] ELSE Restrict(rg, DOMAIN rg \ {h})
               ELSE rg
  IN <<ks2, rg2>>

RemStepFixed(ks, rg, n, h) ==
  IF h \in DOMAIN rg /\ R(n) \in {R(x) : x \in Range(rg[h])}
    THEN LET b == RemoveAt(rg[h], SetMin({j \in 1..Len(rg[h]) : R(rg[h][j]) = R(n)}))     \* repr(x) == nodeRepr
             idx == FirstIdx(ks, h)
         IN << IF idx <= Len(ks) /\ ks[idx] = h THEN RemoveAt(ks, idx) ELSE ks,
               IF Len(b) > 0 THEN [rg EXCEPT ![h] = b] ELSE Restrict(rg, DOMAIN rg \ {h}) >>
    ELSE <<ks, rg>>

RECURSIVE RemLoop(_, _, _, _)
RemLoop(ks, rg, n, i) ==
  IF i > Cap THEN <<ks, rg>>
  ELSE LET s == IF Variant = "orig" THEN RemStepOrig(ks, rg, n, vh[R(n)][i])
                                    ELSE RemStepFixed(ks, rg, n, vh[R(n)][i])
       IN RemLoop(s[1], s[2], n, i + 1)

\* state after h.Remove(n): <<keys, ring, nodes>>
Removed(ks, rg, ns, n) ==
  IF R(n) \notin ns THEN <<ks, rg, ns>>                                  \* containsNode(nodeRepr)
  ELSE LET s == RemLoop(ks, rg, n, 1) IN <<s[1], s[2], ns \ {R(n)}>>

\* ------------------------------------------------------------------ AddWithReplicas
RECURSIVE AddLoop(_, _, _, _, _)
AddLoop(ks, rg, n, i, r) ==
  IF i > r THEN <<ks, rg>>
  ELSE LET h == vh[R(n)][i] IN                                           \* hash(nodeRepr + itoa(i))
       AddLoop(Append(ks, h), PutF(rg, h, IF h \in DOMAIN rg THEN Append(rg[h], n) ELSE <<n>>), n, i + 1, r)

Added(ks, rg, ns, n, replicas) ==
  LET s0 == Removed(ks, rg, ns, n)
      r  == IF replicas > Cap THEN Cap ELSE replicas
      s1 == AddLoop(s0[1], s0[2], n, 1, r)
  IN <<SortSeq(s1[1], <), s1[2], s0[3] \cup {R(n)}>>

\* ------------------------------------------------------------------ Get
GetOf(ks, rg) ==
  IF DOMAIN rg = {} THEN None
  ELSE IF Len(ks) = 0 THEN Panic                         \* index % len(h.keys): divide by zero
  ELSE LET idx == FirstIdx(ks, kh)
           p   == ks[IF idx > Len(ks) THEN 1 ELSE idx]
       IN IF p \notin DOMAIN rg THEN None                 \* `case 0`
          ELSE LET b == rg[p] IN
               IF Len(b) = 1 THEN b[1]
               ELSE IF Variant = "orig" THEN b[(ih % Len(b)) + 1]
               ELSE Rendezvous(Range(b), sc)

Assign(ks, rg) == <<GetOf(ks, rg)>>       \* assignment of the (single) probe key

\* ------------------------------------------------------------------ behaviour
VHs == [Nodes -> [1..Cap -> 0..(P - 1)]]
IInit ==
  /\ vh \in VHs /\ (Collide = "none" => NoCollision(vh, Nodes)) /\ (Rot => vh[1][1] = 0)
  /\ kh \in 0..(P - 1) /\ ih \in IHRange /\ sc \in [Nodes -> SCRange]
  /\ keys = <<>> /\ ring = <<>> /\ nodes = {} /\ mem = <<>> /\ ok = TRUE /\ hist = <<>>

NextMembers(n, kind, arg) ==
  IF kind = "remove" THEN DelMember(mem, n) ELSE AddMember(mem, n, Eff(Cap, kind, arg), 0)

\* the Layer-P bookkeeping every operation on node n does
PStep(n, kind, arg) ==
  /\ mem' = NextMembers(n, kind, arg)
  /\ ok' = OnlyToOrFrom(n, Assign(keys, ring), Assign(keys', ring'))
  /\ hist' = Append(hist, [op |-> kind, n |-> n, arg |-> arg])
  /\ UNCHANGED pvars

Apply(s) == keys' = s[1] /\ ring' = s[2] /\ nodes' = s[3]

IAdd(n)        == Apply(Added(keys, ring, nodes, n, Cap))                  /\ PStep(n, "add", 0)
IAddRep(n, r)  == Apply(Added(keys, ring, nodes, n, r))                    /\ PStep(n, "rep", r)
IAddWt(n, w)   == Apply(Added(keys, ring, nodes, n, (Cap * w) \div 100))   /\ PStep(n, "wt", w)
IRemove(n)     == Apply(Removed(keys, ring, nodes, n))                     /\ PStep(n, "remove", 0)

INext ==
  /\ MaxOps = 0 \/ Len(hist) < MaxOps
  /\ \E n \in Nodes :
       \/ IAdd(n)
       \/ \E r \in Reps : IAddRep(n, r)
       \/ \E w \in Weights : IAddWt(n, w)
       \/ IRemove(n)

ISpec == IInit /\ [][INext]_vars

\* ------------------------------------------------------------------ what TLC checks
MemberOnly == MemberOnlyOK(mem, Assign(keys, ring))
Disruption == ok

\* the ring a fresh instance gets when the members are added in ascending node order; if Get
\* depends on the member map only, it must agree with that ring whatever the history was
RECURSIVE FreshFrom(_, _, _)
FreshFrom(st, m, n) ==
  IF n > Cardinality(Nodes) THEN st
  ELSE FreshFrom(IF n \in DOMAIN m THEN Added(st[1], st[2], st[3], n, m[n].r) ELSE st, m, n + 1)
Fresh(m) == FreshFrom(<<<<>>, <<>>, {}>>, m, 1)
HistoryIndependent == LET f == Fresh(mem) IN GetOf(keys, ring) = GetOf(f[1], f[2])

\* the reference placement (RingPlace): the answer is a node sharing the first occupied
\* position at or after the key's hash; "fixed" also pins WHICH sharer
Placement ==
  LET c == Candidates(vh, mem, kh) IN
    IF c = {} THEN GetOf(keys, ring) = None
    ELSE IF Variant = "fixed" THEN GetOf(keys, ring) = Rendezvous(c, sc)
    ELSE GetOf(keys, ring) \in c

Count(s, x) == Cardinality({j \in DOMAIN s : s[j] = x})
RECURSIVE SumLen(_, _)
SumLen(rg, D) == IF D = {} THEN 0 ELSE LET h == CHOOSE x \in D : TRUE IN Len(rg[h]) + SumLen(rg, D \ {h})
RECURSIVE Occ(_, _, _)
Occ(rg, D, n) == IF D = {} THEN 0 ELSE LET h == CHOOSE x \in D : TRUE IN Count(rg[h], n) + Occ(rg, D \ {h}, n)
StructureOK ==
  /\ nodes = DOMAIN mem
  /\ \A j \in 1..(Len(keys) - 1) : keys[j] <= keys[j + 1]
  /\ Range(keys) = DOMAIN ring
  /\ Len(keys) = SumLen(ring, DOMAIN ring)
  /\ \A h \in DOMAIN ring : Count(keys, h) = Len(ring[h]) /\ Len(ring[h]) > 0
  /\ \A n \in Nodes : Occ(ring, DOMAIN ring, n) = IF n \in DOMAIN mem THEN mem[n].r ELSE 0
  /\ \A h \in DOMAIN ring : \A n \in Range(ring[h]) :
        n \in DOMAIN mem /\ \E i \in 1..mem[n].r : vh[n][i] = h

\* ------------------------------------------------------------------ generation
View == <<vh, kh, ih, sc, keys, ring, nodes, mem, ok>>
PrintHist == (Emit /\ Len(hist) > 0) => PrintT("TRACE " \o ToJson(hist))
=============================================================================
