SPECIFICATION ISpec
CONSTANTS
  Nodes = {1, 2, 3}
  Cap = 1
  P = 3
  Variant = "fixed"
  Collide = "any"
  Rot = FALSE
  IHRange = {0}
  SCRange = {0, 1, 2}
  Reps = {0, 1, 2}
  Weights = {50, 100}
  MaxOps = 0
  Emit = FALSE
  ReprOf <- ReprId
INVARIANTS MemberOnly Disruption HistoryIndependent Placement StructureOK
VIEW View
CHECK_DEADLOCK FALSE
