----------------------------- MODULE RingRepr -----------------------------
(* C15, node identity.  The property quantifies over NODES that are values -- "strings,
   numbers, Stringers" -- while the ring only ever sees lang.Repr(node): that string names the
   virtual nodes (repr+itoa(i)), is the member set (`nodes`), and decides which bucket entry
   Remove deletes.  So the property needs of the representation exactly this:

       Repr(a) = Repr(b)  <=>  a and b are the same node                        (Faithful)

   where "the same node" is the node's NAME: the mathematical value of a number written in
   decimal, the text of a string / Stringer (hence Add(1), Add(int8(1)), Add(uint64(1)) and
   Add("1") are one node -- an assumption of the check -- and uint64(2^64-7), int64(-7),
   7 are three).  RingImpl.tla is parameterised by ReprOf and shows what happens to the ring
   when <= fails (RingImplBugRepr.cfg); this module model-checks the formatting itself over
   every integer type, scaled down from 8/16/32/64 bits to the widths in Widths:

     Fmt = "pertype" : lang.Repr as found -- every signed type through FormatInt of its own
                       value, every unsigned type through FormatUint.            Faithful.
     Fmt = "wrap"    : unsigned values formatted through the widest SIGNED type
                       (FormatInt(int64(val.Uint()))): the top half of the widest unsigned
                       type wraps to the negative numbers.                        Counterexample.
     Fmt = "narrow"  : integers formatted through a narrower signed type (Itoa(int(v)) where
                       int is not the widest type): truncation twins.             Counterexample.

   Ring.tla carries the names of the nodes of a recorded trace (reset.vals) and demands that
   the driver numbered the nodes by NAME (Canon), computed from the typed Go value without
   lang.Repr; the numeric node families of the drivers are built from the boundary values and
   the twins (wrap, truncation, magnitude) this model enumerates.                          *)
EXTENDS Integers, FiniteSets, TLC

CONSTANTS Widths,   \* bit widths of the integer types (Go: 8, 16, 32, 64)
          Fmt       \* "pertype" | "wrap" | "narrow"

VARIABLES a, b      \* an arbitrary pair of values

RECURSIVE Pow2(_)
Pow2(n) == IF n = 0 THEN 1 ELSE 2 * Pow2(n - 1)
WMax == CHOOSE w \in Widths : \A x \in Widths : x <= w
WMid == CHOOSE w \in Widths \ {WMax} : \A x \in Widths \ {WMax} : x <= w

SRange(w) == (0 - Pow2(w - 1)) .. (Pow2(w - 1) - 1)
URange(w) == 0 .. (Pow2(w) - 1)
Numerals  == (0 - Pow2(WMax - 1)) .. (Pow2(WMax) - 1)      \* every number some type can hold

Values ==
       {v \in [k : {"int"}, w : Widths, z : Numerals] : v.z \in SRange(v.w)}
  \cup {v \in [k : {"uint"}, w : Widths, z : Numerals] : v.z \in URange(v.w)}
  \cup [k : {"text"}, w : {0}, z : Numerals]               \* string / Stringer / []byte spelling numeral z
  \cup [k : {"word"}, w : {0}, z : {1, 2}]                 \* texts that are not numerals

\* the node a value denotes
Name(v) == IF v.k = "word" THEN <<"word", v.z>> ELSE <<"num", v.z>>

\* two's complement reinterpretation of the low w bits of z as a signed number
ToSigned(z, w) == LET m == z % Pow2(w) IN IF m >= Pow2(w - 1) THEN m - Pow2(w) ELSE m

\* what the ring is told
Repr(v) ==
  CASE v.k = "word" -> <<"word", v.z>>
    [] v.k = "text" -> <<"num", v.z>>
    [] v.k = "int"  -> IF Fmt = "narrow" THEN <<"num", ToSigned(v.z, WMid)>> ELSE <<"num", v.z>>
    [] v.k = "uint" -> IF Fmt = "wrap" THEN <<"num", ToSigned(v.z, WMax)>>
                       ELSE IF Fmt = "narrow" THEN <<"num", ToSigned(v.z, WMid)>>
                       ELSE <<"num", v.z>>

Init == a \in Values /\ b \in Values
Next == UNCHANGED <<a, b>>
Spec == Init /\ [][Next]_<<a, b>>

Faithful == (Repr(a) = Repr(b)) <=> (Name(a) = Name(b))

\* the pairs a non-faithful formatting conflates (what the numeric node families aim at)
Twins == {p \in Values \X Values : Name(p[1]) # Name(p[2]) /\ Repr(p[1]) = Repr(p[2])}
=============================================================================
