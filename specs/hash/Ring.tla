------------------------------- MODULE Ring -------------------------------
(* Layer P for C15: consistent-hash rings as the property sees them.  No hash values,
   no virtual-node positions: only which nodes are members with how many replicas,
   and which node every probe key is currently assigned to.  Every behaviour of this
   machine satisfies the property statement, and it constrains nothing else: WHICH
   member owns a key is free, as long as
     - it is a member (none iff the ring has no virtual node)            MemberOnlyOK
     - the Go value returned is the one last added under that name        FormOK
     - an operation on node n only moves keys to or from n                OnlyToOrFrom
     - the same members/replica counts always give the same assignment,
       on any ring instance, reached by any history                       DeterministicOK
     - (consequence of the last two) two rings that differ in one node
       differ only in keys of that node                                   NeighbourOK
   Several ring instances (same hash function, same probe keys) live in one behaviour so
   that history independence is checked across differently built rings.

   What a node IS: a value -- a string, a number of any Go numeric type, a Stringer.  Node
   ids 1..nn stand for NAMES (RingRepr.tla: a number's mathematical value in decimal, a
   string's / Stringer's text); `vals` describes, for every node, the typed Go values
   ("forms") the driver uses for it: [t |-> Go type, neg |-> sign, mag |-> magnitude digits or
   the text].  ValsOK demands that the numbering follows the names: all forms of a node
   carry one name, two nodes never share a name, whatever their types -- so uint64(2^64-7),
   int64(-7) and 7 are three nodes and a ring that treats two of them as one breaks the laws
   below.  (A driver that does not describe its nodes -- string-only clusters -- logs none.) *)
EXTENDS RingProps

VARIABLES
  nodeset,  \* node ids of this trace (a node = one lang.Repr string)
  nk,       \* number of probe keys
  caps,     \* instance |-> replica cap (ConsistentHash.replicas)
  members,  \* instance |-> member map
  assign,   \* instance |-> current assignment of the probe keys
  memo,     \* shape |-> assignment first observed with it (history variable)
  vals      \* node |-> form |-> description of the Go value (<<>>: not described)

rvars == <<nodeset, nk, caps, members, assign, memo, vals>>

Live == DOMAIN caps
Empty == <<>>

RInit == nodeset = {} /\ nk = 0 /\ caps = Empty /\ members = Empty /\ assign = Empty /\ memo = Empty
         /\ vals = Empty

\* ---- node identity (see RingRepr.tla) ----
Signed   == {"int", "int8", "int16", "int32", "int64"}
Unsigned == {"uint", "uint8", "uint16", "uint32", "uint64"}
Floats   == {"float32", "float64"}
Texts    == {"string", "stringer", "pstringer"}
\* indirections: a pointer to a number is the number
GoTypes  == Signed \cup Unsigned \cup Floats \cup Texts \cup {"*int", "*int64", "*uint64", "*float64"}

Canon(v) == IF v.neg THEN "-" \o v.mag ELSE v.mag          \* the node's name

ValueOK(v) ==
  /\ v.t \in GoTypes /\ v.neg \in BOOLEAN /\ v.mag # ""
  /\ v.t \in Unsigned \cup Texts \cup {"*uint64"} => ~v.neg     \* a text's sign is part of the text
  /\ v.neg => v.mag # "0"                                       \* one zero

ValsOK(vs, nn) ==
  \/ vs = Empty
  \/ /\ DOMAIN vs = 1..nn
     /\ \A n \in 1..nn : /\ Len(vs[n]) >= 1
                         /\ \A f \in DOMAIN vs[n] : ValueOK(vs[n][f]) /\ Canon(vs[n][f]) = Canon(vs[n][1])
     /\ \A n1, n2 \in 1..nn : n1 # n2 => Canon(vs[n1][1]) # Canon(vs[n2][1])

PReset(nn, k, vs) ==
  /\ ValsOK(vs, nn)
  /\ nodeset' = 1..nn /\ nk' = k /\ vals' = vs
  /\ caps' = Empty /\ members' = Empty /\ assign' = Empty /\ memo' = Empty

WellFormed(a) == Len(a) = nk

(* what every observation of a ring with member map m must satisfy *)
Observed(m, a, fs) ==
  /\ WellFormed(a)
  /\ MemberOnlyOK(m, a)
  /\ FormOK(m, fs)
  /\ DeterministicOK(memo, m, a)
  /\ NeighbourOK(memo, m, a, nodeset)

Put(f, i, v) == [x \in DOMAIN f \cup {i} |-> IF x = i THEN v ELSE f[x]]

\* NewConsistentHash / NewCustomConsistentHash: an empty ring answers none for every key
PNew(i, cap, a) ==
  /\ i \notin Live /\ cap >= 1
  /\ Observed(Empty, a, {})
  /\ caps' = Put(caps, i, cap) /\ members' = Put(members, i, Empty) /\ assign' = Put(assign, i, a)
  /\ memo' = Remember(memo, Empty, a)
  /\ UNCHANGED <<nodeset, nk, vals>>

NextMembers(m, cap, n, kind, arg, f) ==
  IF kind = "remove" THEN DelMember(m, n) ELSE AddMember(m, n, Eff(cap, kind, arg), f)

\* Add / AddWithReplicas / AddWithWeight / Remove of node n (Go value form f) on instance i,
\* after which the probe keys were looked up: assignment a, returned (node, form) pairs fs
POp(i, n, kind, arg, f, a, fs) ==
  /\ i \in Live /\ n \in nodeset
  /\ vals # Empty => f \in DOMAIN vals[n]
  /\ kind \in {"add", "rep", "wt", "remove"}
  /\ LET m2 == NextMembers(members[i], caps[i], n, kind, arg, f) IN
       /\ Observed(m2, a, fs)
       /\ OnlyToOrFrom(n, assign[i], a)
       /\ members' = [members EXCEPT ![i] = m2]
       /\ assign' = [assign EXCEPT ![i] = a]
       /\ memo' = Remember(memo, m2, a)
  /\ UNCHANGED <<nodeset, nk, caps, vals>>

\* looking the keys up again without any operation in between changes nothing
PProbe(i, a, fs) ==
  /\ i \in Live
  /\ a = assign[i] /\ FormOK(members[i], fs)
  /\ UNCHANGED rvars

\* a ring built elsewhere (cache.New, kv.NewStore, or a driver-made rebuild) by a sequence
\* of additions that was not observed step by step: only the final assignment is known
RECURSIVE Fold(_, _, _)
Fold(m, cap, ops) ==
  IF ops = <<>> THEN m
  ELSE Fold(NextMembers(m, cap, ops[1].n, ops[1].kind, ops[1].arg, ops[1].f), cap, Tail(ops))

PBuild(i, cap, ops, a, fs) ==
  /\ i \notin Live /\ cap >= 1
  /\ \A j \in DOMAIN ops : ops[j].n \in nodeset /\ ops[j].kind \in {"add", "rep", "wt", "remove"}
  /\ LET m2 == Fold(Empty, cap, ops) IN
       /\ Observed(m2, a, fs)
       /\ caps' = Put(caps, i, cap) /\ members' = Put(members, i, m2) /\ assign' = Put(assign, i, a)
       /\ memo' = Remember(memo, m2, a)
  /\ UNCHANGED <<nodeset, nk, vals>>

PDrop(i) ==
  /\ i \in Live
  /\ caps' = Restrict(caps, Live \ {i}) /\ members' = Restrict(members, Live \ {i})
  /\ assign' = Restrict(assign, Live \ {i})
  /\ UNCHANGED <<nodeset, nk, memo, vals>>

\* ---- invariants of the machine (hold by construction; evaluated on every recorded state) ----
MemberOnly == \A i \in Live : MemberOnlyOK(members[i], assign[i])
RemovedNeverReturned ==
  \A i \in Live : \A k \in DOMAIN assign[i] :
     assign[i][k] # None => assign[i][k] \in DOMAIN members[i]
HistoryIndependent ==
  \A i \in Live : Shape(members[i]) \in DOMAIN memo /\ memo[Shape(members[i])] = assign[i]
=============================================================================
