SPECIFICATION TSpec
CONSTANTS CheckPlacement = TRUE
CONSTRAINT HW
INVARIANTS MemberOnly RemovedNeverReturned HistoryIndependent
POSTCONDITION Accepted
CHECK_DEADLOCK FALSE
