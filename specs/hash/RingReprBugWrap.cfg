SPECIFICATION Spec
CONSTANTS
  Widths = {2, 3, 4}
  Fmt = "wrap"
INVARIANTS Faithful
CHECK_DEADLOCK FALSE
