SPECIFICATION ISpec
CONSTANTS
  MethSeq <- Meth2
  PatSeq <- Pats3
  ReqPaths <- Reqs3
  MaxRoutes = 2
  Cfgs <- CfgPlain
  Variant = "backtrack"
  ServeToo = TRUE
  Emit = TRUE
INVARIANTS Refines Sane LastSane ImplAcceptsValid PrintHist
CONSTRAINT Honoured
VIEW View
CHECK_DEADLOCK FALSE
