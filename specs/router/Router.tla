------------------------------- MODULE Router -------------------------------
(* Layer P for C09: what the HTTP router (rest/router/patrouter.go on top of
   core/search/tree.go) must answer, as a declarative reference matcher.

   A pattern segment is <<"l", s>> (the literal s) or <<"v", n>> (the variable :n).
   A raw path / raw pattern is the sequence of pieces between the slashes after the
   leading one ("/a//b/" = <<"a", "", "b", "">>, "/" = <<"">>).  Cleaning (path.Clean on
   a rooted path) drops "" and ".", lets ".." remove the piece before it, and yields the
   root -- one empty segment -- when nothing is left.

   The statement's premise ("one variable name per position under a given prefix") is
   carried as the flag uniq, maintained by Handle; the dispatch clause constrains Serve
   only while it holds (Serve takes the observed response as a parameter and accepts
   anything once the premise is gone).  What registration must reject is always constrained.

   Beyond the statement (neighbouring behaviour of the same file): a table may install
   custom not-found / not-allowed handlers (cfg.nf / cfg.na); the answer is then that
   handler being invoked instead of the plain 404 / 405+Allow.                          *)
EXTENDS Integers, Sequences, FiniteSets, TLC

Supported == {"DELETE", "GET", "HEAD", "OPTIONS", "PATCH", "POST", "PUT"}

VARIABLES
  routes,   \* set of [m |-> method, pat |-> cleaned pattern, id |-> handler identity]
  uniq,     \* the premise holds for routes (per method tree)
  cfg,      \* [nf |-> custom not-found handler installed, na |-> custom not-allowed handler]
  last      \* outcome of the last operation (what the caller observed)

rvars == <<routes, uniq, cfg, last>>

IsVar(s) == s[1] = "v"
IsLit(s) == s[1] = "l"
Root     == <<"">>
RootPat  == << <<"l", "">> >>
DropLast(s) == SubSeq(s, 1, Len(s) - 1)

-----------------------------------------------------------------------------
\* path.Clean for rooted paths, on pieces.  nm[i] is the text of piece raw[i] that
\* cleaning looks at; a variable piece ":n" is never "", "." or "..".
RECURSIVE CleanAcc(_, _, _, _)
CleanAcc(raw, nm, i, acc) ==
  IF i > Len(raw) THEN acc
  ELSE IF nm[i] = "" \/ nm[i] = "." THEN CleanAcc(raw, nm, i + 1, acc)
  ELSE IF nm[i] = ".." THEN CleanAcc(raw, nm, i + 1, IF acc = <<>> THEN acc ELSE DropLast(acc))
  ELSE CleanAcc(raw, nm, i + 1, Append(acc, raw[i]))

PatNames(raw) == [i \in 1..Len(raw) |-> IF IsLit(raw[i]) THEN raw[i][2] ELSE ":"]

CleanPath(raw) == LET c == CleanAcc(raw, raw, 1, <<>>) IN IF c = <<>> THEN Root ELSE c
CleanPat(raw)  == LET c == CleanAcc(raw, PatNames(raw), 1, <<>>) IN IF c = <<>> THEN RootPat ELSE c

-----------------------------------------------------------------------------
\* segment-by-segment matching of a cleaned path against a cleaned pattern
Matches(pat, segs) ==
  /\ Len(pat) = Len(segs)
  /\ \A i \in 1..Len(pat) : IsVar(pat[i]) \/ pat[i][2] = segs[i]

Matching(m, segs) == {r \in routes : r.m = m /\ Matches(r.pat, segs)}

\* p is strictly preferred over q (both match the same path, hence same length): at the
\* first segment where one is a literal and the other a variable, p has the literal
Prefer(p, q) ==
  \E i \in 1..Len(p) :
     /\ IsLit(p[i]) /\ IsVar(q[i])
     /\ \A j \in 1..(i - 1) : p[j][1] = q[j][1]

\* the candidates no other candidate is preferred over (exactly one under the premise)
BestSet(M) == {r \in M : \A q \in M : ~Prefer(q.pat, r.pat)}

\* the variables a handler may be given for pattern pat on path segs: every variable
\* name of the pattern, bound to the segment at a position carrying that name
VarPos(pat) == {i \in 1..Len(pat) : IsVar(pat[i])}
Bindings(pat, segs) == {<<pat[i][2], segs[i]>> : i \in VarPos(pat)}
VarChoices(pat, segs) ==
  LET B == Bindings(pat, segs)
      N == {b[1] : b \in B}
  IN IF Cardinality(N) = Cardinality(B) THEN {B}          \* distinct names: exactly the bound segments
     ELSE {V \in SUBSET B : \A n \in N : Cardinality({b \in V : b[1] = n}) = 1}

\* the other methods that have a matching route
Others(m, segs) == {r.m : r \in {q \in routes : q.m # m /\ Matches(q.pat, segs)}}

NoResp(k) == [kind |-> k, id |-> 0, vars |-> {}, allow |-> {}]

\* every acceptable answer to method m on the cleaned path segs
Responses(m, segs) ==
  LET M == Matching(m, segs)
      O == Others(m, segs)
  IN IF M # {} THEN
        {[kind |-> "handler", id |-> r.id, vars |-> V, allow |-> {}] :
            <<r, V>> \in UNION {{<<b, W>> : W \in VarChoices(b.pat, segs)} : b \in BestSet(M)}}
     ELSE IF O # {} THEN
        (IF cfg.na THEN {NoResp("na")} ELSE {[kind |-> "405", id |-> 0, vars |-> {}, allow |-> O]})
     ELSE
        (IF cfg.nf THEN {NoResp("nf")} ELSE {NoResp("404")})

-----------------------------------------------------------------------------
\* the premise, declaratively, and the test Handle uses to maintain the flag
Compatible(p, q) ==
  \A i \in 1..(IF Len(p) < Len(q) THEN Len(p) ELSE Len(q)) :
     (IsVar(p[i]) /\ IsVar(q[i]) /\ SubSeq(p, 1, i - 1) = SubSeq(q, 1, i - 1)) => p[i][2] = q[i][2]
Premise == \A r1, r2 \in routes : r1.m = r2.m => Compatible(r1.pat, r2.pat)

-----------------------------------------------------------------------------
RInit(c) == routes = {} /\ uniq = TRUE /\ cfg = c /\ last = NoResp("init")

\* router.Handle(m, pattern, handler id) returned nil (ok) or an error; abs = the pattern
\* text starts with "/".  What must be rejected is fixed; a registration that returned an
\* error registered nothing (the statement does not oblige the router to accept the rest).
Rejected(m, abs, raw) ==
  \/ m \notin Supported
  \/ ~abs
  \/ \E r \in routes : r.m = m /\ r.pat = CleanPat(raw)

Handle(m, abs, raw, id, ok) ==
  /\ ok => ~Rejected(m, abs, raw)
  /\ UNCHANGED cfg
  /\ IF ok
       THEN LET p == CleanPat(raw) IN
            /\ routes' = routes \cup {[m |-> m, pat |-> p, id |-> id]}
            /\ uniq' = (uniq /\ \A r \in routes : r.m = m => Compatible(r.pat, p))
            /\ last' = NoResp("added")
       ELSE /\ UNCHANGED <<routes, uniq>>
            /\ last' = NoResp("rejected")

\* ServeHTTP for method m and raw path raw, observed response resp
Serve(m, raw, resp) ==
  /\ uniq => resp \in Responses(m, CleanPath(raw))
  /\ last' = resp
  /\ UNCHANGED <<routes, uniq, cfg>>
=============================================================================
