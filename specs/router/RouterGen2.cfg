SPECIFICATION ISpec
CONSTANTS
  MethSeq <- Meth3
  PatSeq <- Pats2
  ReqPaths <- Reqs2
  MaxRoutes = 2
  Cfgs <- CfgPlain
  Variant = "backtrack"
  ServeToo = TRUE
  Emit = TRUE
INVARIANTS Refines Sane LastSane ImplAcceptsValid PrintHist
CONSTRAINT Honoured
VIEW View
CHECK_DEADLOCK FALSE
