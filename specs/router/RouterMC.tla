------------------------------ MODULE RouterMC ------------------------------
(* Constants for model checking / test generation of RouterImpl (C09). *)
EXTENDS RouterImpl

A == <<"l", "a">>
B == <<"l", "b">>
X == <<"v", "x">>
Y == <<"v", "y">>
Abs(p) == [abs |-> TRUE, p |-> p]
Rel(p) == [abs |-> FALSE, p |-> p]

RECURSIVE SeqsUpTo(_, _)
SeqsUpTo(S, n) == IF n = 0 THEN {<<>>} ELSE LET R == SeqsUpTo(S, n - 1) IN R \cup {Append(r, s) : r \in R, s \in S}
RECURSIVE SetToSeq(_)
SetToSeq(S) == IF S = {} THEN <<>> ELSE LET x == CHOOSE y \in S : TRUE IN <<x>> \o SetToSeq(S \ {x})

\* raw registrations that need cleaning / are invalid
RawRegs == << Abs(<<A, <<"l", "">>>>), Abs(<<<<"l", "">>, A>>), Abs(<<A, <<"l", "..">>, B>>), Abs(<<<<"l", "..">>>>),
              Abs(<<<<"l", ".">>, X>>), Rel(<<A>>), Rel(<<>>) >>
RawReqs == { <<"a", "">>, <<"..", "a">>, <<"a", ".", "b">>, <<"a", "c", "..", "b">>, <<"">>, <<"", "">> }

\* depth 2 over {a, b, :x, :y}
Pats2 == SetToSeq({Abs(p) : p \in SeqsUpTo({A, B, X, Y}, 2)}) \o RawRegs
Pats2c == SetToSeq({Abs(p) : p \in SeqsUpTo({A, B, X, Y}, 2)})
Reqs2 == (SeqsUpTo({"a", "b", "c"}, 2) \ {<<>>}) \cup RawReqs \cup {<<"a", "b", "c">>}

\* depth 3 over {a, :x} (+ :y at the first position)
Pats3 == SetToSeq({Abs(p) : p \in SeqsUpTo({A, X}, 3)} \cup {Abs(<<Y>>), Abs(<<Y, A>>), Abs(<<A, X, X>>)}) \o RawRegs
Reqs3 == (SeqsUpTo({"a", "c"}, 3) \ {<<>>}) \cup RawReqs \cup {<<"a", "c", "a", "c">>}

Meth3 == <<"GET", "POST", "TRACE">>
Meth2 == <<"GET", "POST">>
CfgPlain == {[nf |-> FALSE, na |-> FALSE]}
CfgAll == {[nf |-> FALSE, na |-> FALSE], [nf |-> TRUE, na |-> TRUE]}
=============================================================================
