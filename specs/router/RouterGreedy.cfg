SPECIFICATION ISpec
CONSTANTS
  MethSeq <- Meth3
  PatSeq <- Pats2
  ReqPaths <- Reqs2
  MaxRoutes = 2
  Cfgs <- CfgPlain
  Variant = "greedy"
  ServeToo = TRUE
  Emit = FALSE
INVARIANTS Refines Sane LastSane ImplAcceptsValid
CONSTRAINT Honoured
VIEW View
CHECK_DEADLOCK FALSE
