SPECIFICATION ISpec
CONSTANTS
  MethSeq <- Meth2
  PatSeq <- Pats3
  ReqPaths <- Reqs3
  MaxRoutes = 3
  Cfgs <- CfgPlain
  Variant = "backtrack"
  ServeToo = FALSE
  Emit = FALSE
INVARIANTS Refines Sane LastSane ImplAcceptsValid
CONSTRAINT Honoured
VIEW View
CHECK_DEADLOCK FALSE
