SPECIFICATION ISpec
CONSTANTS
  MethSeq <- Meth2
  PatSeq <- Pats2c
  ReqPaths <- Reqs2
  MaxRoutes = 3
  Cfgs <- CfgPlain
  Variant = "backtrack"
  ServeToo = FALSE
  Emit = FALSE
INVARIANTS Refines Sane LastSane ImplAcceptsValid
CONSTRAINT Honoured
VIEW View
CHECK_DEADLOCK FALSE
