---------------------------- MODULE RouterTrace ----------------------------
(* Trace validation for C09: what the real router answered (recorded by the overlay
   drivers in rest/router and rest) must be a behaviour of Router.tla.

   reset  {nf, na}                          a fresh router (custom handlers installed or not)
   handle {m, abs, p, id, ok}               router.Handle(m, pattern, handler id) returned nil (ok) or an error
   serve  {m, p, n, h, vars, st, allow, nf, na}
          ServeHTTP on method m / raw path p: n route handlers ran (h = id of the first, 0 if
          none), vars = pathvar.Vars seen by it as <<name, value>> pairs, st = status code,
          allow = the Allow header split at ", ", nf / na = invocations of the custom handlers *)
EXTENDS Router, TraceKit

VARIABLE l
tvars == <<routes, uniq, cfg, last, l>>

E == Trace[l]
IsEvent(e) == l <= Len(Trace) /\ E.e = e /\ l' = l + 1

\* the observed response, classified mechanically from what was recorded
Observed ==
  LET quiet == E.n = 0 /\ E.nf = 0 /\ E.na = 0 IN
  IF E.n = 1 /\ E.nf = 0 /\ E.na = 0 /\ Len(E.vars) = Cardinality(SeqToSet(E.vars))
    THEN [kind |-> "handler", id |-> E.h, vars |-> SeqToSet(E.vars), allow |-> {}]
  ELSE IF E.n = 0 /\ E.nf = 0 /\ E.na = 1 THEN NoResp("na")
  ELSE IF E.n = 0 /\ E.nf = 1 /\ E.na = 0 THEN NoResp("nf")
  ELSE IF quiet /\ E.st = 405 THEN [kind |-> "405", id |-> 0, vars |-> {}, allow |-> SeqToSet(E.allow)]
  ELSE IF quiet /\ E.st = 404 THEN NoResp("404")
  ELSE NoResp("other")

TReset  == IsEvent("reset") /\ routes' = {} /\ uniq' = TRUE /\ cfg' = [nf |-> E.nf, na |-> E.na]
                            /\ last' = NoResp("init")
THandle == IsEvent("handle") /\ Handle(E.m, E.abs, E.p, E.id, E.ok)
TServe  == IsEvent("serve")  /\ Serve(E.m, E.p, Observed)

TInit == RInit([nf |-> FALSE, na |-> FALSE]) /\ l = 1
TNext == TReset \/ THandle \/ TServe
TSpec == TInit /\ [][TNext]_tvars

HW == HighWater(l)
\* acceptance: every line consumed on some path (position only: serve events are too wide
\* for TLC to print on the one line the runner parses)
RAccepted == IF TLCGet(1) > Len(Trace) THEN TRUE ELSE Print(<<"HW", TLCGet(1)>>, FALSE)
=============================================================================
