----------------------------- MODULE RouterImpl -----------------------------
(* Layer I for C09: the data structure and search of core/search/tree.go under
   rest/router/patrouter.go, in lock-step with the reference matcher of Router.tla.

   One tree per method (created by the first accepted-or-not Add for a supported method
   with an absolute pattern).  A tree is the set of its nodes -- a node is named by the
   sequence of pattern pieces leading to it, the root by <<>> -- and the partial map
   item from nodes to handler ids.  Add walks/creates the nodes of the cleaned pattern and
   fails if the end node already carries an item ("/" is the root's own item).  Search is
   the recursive next(): on the current piece try the literal child equal to it, then the
   variable child, descend, and add the parameter on the way back; on the last piece a
   child only counts if it carries an item.

   Variant = "backtrack": as in go-zero (a literal child that fails deeper falls back to
                          the variable child).
   Variant = "greedy"   : commit to the literal child (documented counterexample).
   Variant = "varfirst" : variable child before literal child (documented counterexample).

   TLC checks, for every reachable table honouring the premise and every request of the
   bounded universe, that the implementation's answer is one the reference matcher
   accepts (Refines), plus design sanity of the reference matcher itself.  The same run
   can print one registration history per distinct table (test generation).              *)
EXTENDS Router, Json

CONSTANTS
  MethSeq,    \* methods tried at registration and at serving (some unsupported)
  PatSeq,     \* registrations tried: sequence of [abs |-> BOOLEAN, p |-> raw pattern]
  ReqPaths,   \* raw request paths served
  MaxRoutes,  \* bound on the table size
  Cfgs,       \* set of [nf, na] configurations
  Variant,
  ServeToo,   \* explore Serve steps as well (the invariants quantify over all requests anyway)
  Emit

VARIABLES
  trees,   \* method |-> [nodes |-> set of node names, item |-> node name |-> id]
  iout,    \* how the implementation's last Handle outcome relates to the reference ("-" after Serve)
  hist     \* accepted-or-not registrations so far (test generation; hidden by the VIEW)

vars == <<routes, uniq, cfg, last, trees, iout, hist>>

EmptyTree == [nodes |-> {<<>>}, item |-> <<>>]
Prefixes(p) == {SubSeq(p, 1, k) : k \in 0..Len(p)}

\* search.Tree.Add on the cleaned pattern p
TreeAdd(T, p, id) ==
  LET n == IF p = RootPat THEN <<>> ELSE p IN
  IF n \in DOMAIN T.item THEN [ok |-> FALSE, tree |-> T]
  ELSE [ok |-> TRUE,
        tree |-> [nodes |-> T.nodes \cup Prefixes(n),
                  item  |-> [x \in DOMAIN T.item \cup {n} |-> IF x = n THEN id ELSE T.item[x]]]]

\* patRouter.Handle: the implementation decides (iok); the reference machine takes the same
\* step if it allows that outcome, and the step is marked "bad" if it does not
ImplHandle(m, reg, id) ==
  IF m \notin Supported \/ ~reg.abs THEN [ok |-> FALSE, trees |-> trees]
  ELSE LET T == IF m \in DOMAIN trees THEN trees[m] ELSE EmptyTree
           r == TreeAdd(T, CleanPat(reg.p), id)
       IN [ok |-> r.ok, trees |-> [x \in DOMAIN trees \cup {m} |-> IF x = m THEN r.tree ELSE trees[x]]]

IHandle(mi, pi) ==
  LET m == MethSeq[mi]
      reg == PatSeq[pi]
      id == (mi - 1) * Len(PatSeq) + pi
      ih == ImplHandle(m, reg, id)
      allowed == ih.ok => ~Rejected(m, reg.abs, reg.p)
  IN /\ Cardinality(routes) < MaxRoutes
     /\ IF allowed THEN Handle(m, reg.abs, reg.p, id, ih.ok) ELSE UNCHANGED rvars
     /\ trees' = ih.trees
     /\ iout' = IF ~allowed THEN "bad"                       \* accepted what must be rejected
               ELSE IF ih.ok = ~Rejected(m, reg.abs, reg.p) THEN "exact" ELSE "refused-valid"
     /\ hist' = Append(hist, [m |-> m, abs |-> reg.abs, p |-> reg.p])

-----------------------------------------------------------------------------
NotFound == [found |-> FALSE, id |-> 0, params |-> <<>>]
WithParam(r, k, v) ==
  [r EXCEPT !.params = [x \in DOMAIN r.params \cup {k} |-> IF x = k THEN v ELSE r.params[x]]]

VarChildren(T, n) ==
  {c \in T.nodes : Len(c) = Len(n) + 1 /\ SubSeq(c, 1, Len(n)) = n /\ IsVar(c[Len(c)])}

\* Tree.next(n, route) with route = segs[i..]
RECURSIVE TreeNext(_, _, _, _)
TreeNext(T, n, segs, i) ==
  LET tok  == segs[i]
      lit  == Append(n, <<"l", tok>>)
      lits == IF tok # "" /\ lit \in T.nodes THEN <<lit>> ELSE <<>>
      vs   == VarChildren(T, n)
      vseq == IF vs = {} THEN <<>> ELSE <<CHOOSE c \in vs : TRUE>>       \* one under the premise
      cands == IF Variant = "varfirst" THEN vseq \o lits ELSE lits \o vseq
      Try(c) ==
        LET r == IF i < Len(segs) THEN TreeNext(T, c, segs, i + 1)
                 ELSE IF c \in DOMAIN T.item THEN [found |-> TRUE, id |-> T.item[c], params |-> <<>>]
                 ELSE NotFound
        IN IF r.found /\ IsVar(c[Len(c)]) THEN WithParam(r, c[Len(c)][2], tok) ELSE r
  IN IF i = Len(segs) /\ tok = "" /\ n \in DOMAIN T.item
       THEN [found |-> TRUE, id |-> T.item[n], params |-> <<>>]
     ELSE IF cands = <<>> THEN NotFound
     ELSE LET r1 == Try(cands[1]) IN
          IF r1.found \/ Len(cands) = 1 THEN r1
          ELSE IF Variant = "greedy" THEN r1
          ELSE Try(cands[2])

TreeSearch(m, segs) == IF m \in DOMAIN trees THEN TreeNext(trees[m], <<>>, segs, 1) ELSE NotFound

\* patRouter.ServeHTTP
ImplResponse(m, segs) ==
  LET r == TreeSearch(m, segs)
      allows == {x \in DOMAIN trees \ {m} : TreeSearch(x, segs).found}
  IN IF r.found THEN [kind |-> "handler", id |-> r.id,
                      vars |-> {<<k, r.params[k]>> : k \in DOMAIN r.params}, allow |-> {}]
     ELSE IF allows # {} THEN (IF cfg.na THEN NoResp("na")
                               ELSE [kind |-> "405", id |-> 0, vars |-> {}, allow |-> allows])
     ELSE (IF cfg.nf THEN NoResp("nf") ELSE NoResp("404"))

\* a request is served: the reference matcher picks any answer it accepts
PServe(m, raw) ==
  /\ \E resp \in Responses(m, CleanPath(raw)) : Serve(m, raw, resp)
  /\ iout' = "-"
  /\ UNCHANGED <<trees, hist>>

IInit == \E c \in Cfgs : RInit(c) /\ trees = <<>> /\ iout = "-" /\ hist = <<>>
INext ==
  \/ \E mi \in 1..Len(MethSeq), pi \in 1..Len(PatSeq) : IHandle(mi, pi)
  \/ ServeToo /\ \E mi \in 1..Len(MethSeq), raw \in ReqPaths : PServe(MethSeq[mi], raw)
ISpec == IInit /\ [][INext]_vars

\* CONSTRAINT: tables that broke the premise are not extended (nothing is demanded of
\* them); neither are states reached by a Serve or by a refused registration (they change
\* nothing but last: every table is still reached, and served from the state that added
\* its last route)
Fresh == last.kind \in {"init", "added"}
Honoured == uniq /\ Fresh

-----------------------------------------------------------------------------
AllMethods == {MethSeq[i] : i \in 1..Len(MethSeq)}

\* the implementation answers what the reference matcher accepts, for every request
\* (the answers are a function of routes/cfg only: evaluated in the state a registration produced)
Refines ==
  /\ iout # "bad"
  /\ (uniq /\ Fresh) => \A m \in AllMethods, raw \in ReqPaths :
               LET segs == CleanPath(raw) IN ImplResponse(m, segs) \in Responses(m, segs)

\* ---- design sanity of the reference matcher ----
KindSeq(p) == [i \in 1..Len(p) |-> IF IsLit(p[i]) THEN 0 ELSE 1]
RECURSIVE LexLess(_, _)
LexLess(s, t) == s # <<>> /\ (s[1] < t[1] \/ (s[1] = t[1] /\ LexLess(Tail(s), Tail(t))))

Sane ==
  /\ uniq = Premise
  /\ \A r \in routes : r.m \in Supported /\ r.pat = CleanPat(r.pat)
  /\ \A r1, r2 \in routes : (r1.m = r2.m /\ r1.pat = r2.pat) \/ r1.id = r2.id => r1 = r2
  /\ \A raw \in ReqPaths : CleanPath(CleanPath(raw)) = CleanPath(raw)
  /\ (uniq /\ Fresh) => \A m \in AllMethods, raw \in ReqPaths :
       LET segs == CleanPath(raw)
           M == Matching(m, segs)
           R == Responses(m, segs)
       IN /\ R # {}
          /\ M # {} =>
               /\ Cardinality(BestSet(M)) = 1                       \* the preference decides
               /\ \A b \in BestSet(M) : \A q \in M \ {b} :         \* and is the lexicographic order
                      LexLess(KindSeq(b.pat), KindSeq(q.pat))
               /\ \A x \in R : x.kind = "handler"
          /\ M = {} => \A x \in R : x.kind \in {"405", "404", "na", "nf"}
          /\ \A x \in R : x.kind = "405" => x.allow # {} /\ m \notin x.allow /\ x.allow \subseteq Supported

\* the model of tree.go accepts every registration that need not be rejected (a fact about
\* the model, not a demand on the code)
ImplAcceptsValid == iout # "refused-valid"

\* what a Serve step may have produced
LastSane ==
  /\ last.kind = "handler" => \E r \in routes : r.id = last.id
  /\ last.kind \in {"na", "nf"} => (last.kind = "na" => cfg.na) /\ (last.kind = "nf" => cfg.nf)

\* ---- test generation: one registration history per distinct table ----
View == <<routes, uniq, cfg, last, trees, iout>>
PrintHist == (Emit /\ uniq /\ last.kind \in {"added", "rejected"} /\ cfg = [nf |-> FALSE, na |-> FALSE])
               => PrintT("TRACE " \o ToJson(hist))
=============================================================================
