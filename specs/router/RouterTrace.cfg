SPECIFICATION TSpec
CONSTRAINT HW
POSTCONDITION RAccepted
CHECK_DEADLOCK FALSE
