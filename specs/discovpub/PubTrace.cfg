SPECIFICATION TSpec
CONSTRAINT HW
INVARIANTS PTypeOK OneRegistration AliveRegistered PausedClean StoppedClean
POSTCONDITION Accepted
CHECK_DEADLOCK FALSE
