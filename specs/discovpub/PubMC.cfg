SPECIFICATION MSpec
CONSTANTS
  MIds = {0, 7}
  MaxLease = 3
  MaxWait = 1
INVARIANTS PTypeOK OneRegistration AliveRegistered PausedClean StoppedClean RestDefined
PROPERTIES NoNewAfterStop
CHECK_DEADLOCK FALSE
