------------------------------ MODULE PubImpl ------------------------------
(* Layer I: core/discov/publisher.go as it is written -- goroutines, the two unbuffered
   channels pauseChan / resumeChan, the quit DoneChan, the one-second ticker of doKeepAlive --
   one action per channel operation / client call, running against the guards of Pub.tla
   (a guard that is false when the code takes the corresponding step is recorded in viol).

     KeepAlive():      cli := doRegister()   -- Grant; Put          (thread 0, the caller)
                       keepAliveAsync(cli)   -- KeepAlive; go loop
     loop (func1):     for { select {
                         _, ok := <-ch:   if !ok { revoke; doKeepAlive(); return }
                         <-pauseChan:     revoke; select { <-resumeChan: doKeepAlive(); return
                                                           <-quit: return }
                         <-quit:          revoke; return } }
     doKeepAlive():    for range ticker.C { select { <-quit: return
                         default: doRegister() -> err: next tick; keepAliveAsync -> err: next tick
                                  return } }
     Pause()/Resume(): pauseChan <- x / resumeChan <- x       Stop(): quit.Close()

   The environment (the etcd client and the callers): answers every client call ok or not
   (MaxFail failures), ends keep-alive streams (MaxClose), puts keep-alive responses on them
   (MaxResp), lets time pass (tick), calls KeepAlive (only while no loop runs: the documented
   usage) / Pause / Resume / Stop.  Its moves are the commands of a generated history:
     ka | pause | resume | stop | reply ok | close l | resp l | tick

   Mode = "free": everything interleaves                                  (model checking)
   Mode = "rtc" : the environment moves only when the library cannot; its moves are kept in
                  hist (generation: the Go driver performs a command and lets the library
                  run until nothing moves)

   Variant = "ok"           the code as it is
   Variant = "nopausequit"  the paused select has no quit case            (wrong variant)
   Variant = "norevoke"     the stream ended: re-register without Revoke  (wrong variant)
   Variant = "nochk"        doKeepAlive does not look at quit             (wrong variant) *)
EXTENDS Pub, Json

CONSTANTS Id, MaxLease, MaxFail, MaxClose, MaxResp, MaxKa, MaxPause, MaxResume, MaxStop, Variant, Mode, Emit, MinCmd, MaxCmd

VARIABLES
  th,        \* thread -> program counter; thread 0 is the KeepAlive() caller, 1.. are loops
  chn,       \* loop thread -> the lease whose stream it selects on
  please,    \* p.lease
  qcl,       \* quit is closed
  kch,       \* lease -> "open" | "closed": the streams the client handed out
  nl,        \* leases granted
  pcp, pcr, pcs,             \* Pause / Resume / Stop caller: "idle" | "send" ("close") | "ret"
  nfail, nclose, nresp, nka, npause, nresume, nstop,   \* environment budgets
  viol,      \* first Layer-P guard that did not hold ("" = none)
  hist, ncmd

bud == <<nfail, nclose, nresp, nka, npause, nresume, nstop>>
ivars == <<th, chn, please, qcl, kch, nl, pcp, pcr, pcs, bud>>
vars == <<pvars, ivars, viol, hist, ncmd>>

Threads == DOMAIN th
Loops == Threads \ {0}
Live == {t \in Loops : th[t] # "gone"}
CallPcs == {"grant", "put", "ka", "rvL", "rvP", "rvQ"}

IInit ==
  /\ PStart(Cf(Id, 10, 1, 1))
  /\ th = [t \in {0} |-> "idle"] /\ chn = [t \in {0} |-> 0] /\ please = 0 /\ qcl = FALSE
  /\ kch = EmptyFn /\ nl = 0 /\ pcp = "idle" /\ pcr = "idle" /\ pcs = "idle"
  /\ nfail = 0 /\ nclose = 0 /\ nresp = 0 /\ nka = 0 /\ npause = 0 /\ nresume = 0 /\ nstop = 0
  /\ viol = "" /\ hist = <<>> /\ ncmd = 0

\* a step of the code that Layer P knows about: guard recorded, effect applied
P(name, ok, eff) == IF ok THEN eff /\ viol' = viol ELSE viol' = name /\ UNCHANGED pvars
Internal == UNCHANGED <<pvars, viol>>
Log(r) == hist' = (IF Mode = "rtc" THEN Append(hist, r) ELSE hist) /\ ncmd' = ncmd + 1
NoLog == UNCHANGED <<hist, ncmd>>
Set(t, pc) == th' = [th EXCEPT ![t] = pc]

\* ------------------------------------------------------------------ library steps
LSel(t) ==
  /\ th[t] = "sel"
  /\ \/ /\ kch[chn[t]] = "closed"
        /\ Set(t, IF Variant = "norevoke" THEN "wait" ELSE "rvL")
        /\ P("seeClosed", SeeClosedOK, SeeClosedEff)
        /\ UNCHANGED <<pcp, pcr>>
     \/ /\ pcp = "send"
        /\ Set(t, "rvP") /\ pcp' = "ret"
        /\ P("takePause", TakePauseOK, TakePauseEff)
        /\ UNCHANGED pcr
     \/ /\ qcl
        /\ Set(t, "rvQ")
        /\ P("seeQuit", SeeQuitOK, SeeQuitEff)
        /\ UNCHANGED <<pcp, pcr>>
  /\ UNCHANGED <<chn, please, qcl, kch, nl, pcs, bud>> /\ NoLog

LPSel(t) ==
  /\ th[t] = "psel"
  /\ \/ /\ pcr = "send"
        /\ Set(t, "wait") /\ pcr' = "ret"
        /\ P("takeResume", TakeResumeOK, TakeResumeEff)
     \/ /\ qcl /\ Variant # "nopausequit"
        /\ Set(t, "gone")
        /\ P("seeQuit", SeeQuitOK, SeeQuitEff)
        /\ UNCHANGED pcr
  /\ UNCHANGED <<chn, please, qcl, kch, nl, pcp, pcs, bud>> /\ NoLog

\* the tick has fired: select { <-quit: return; default: register }
LChk(t) ==
  /\ th[t] = "chk"
  /\ IF qcl /\ Variant # "nochk"
       THEN Set(t, "gone") /\ P("tick", TickOK(FALSE), TickEff(FALSE))
       ELSE Set(t, "grant") /\ P("tick", TickOK(TRUE), TickEff(TRUE))
  /\ UNCHANGED <<chn, please, qcl, kch, nl, pcp, pcr, pcs, bud>> /\ NoLog

LKaRet ==
  /\ th[0] \in {"retok", "reterr"}
  /\ Set(0, "idle")
  /\ P("kaRet", KaRetOK(th[0] = "reterr"), KaRetEff)
  /\ UNCHANGED <<chn, please, qcl, kch, nl, pcp, pcr, pcs, bud>> /\ NoLog

LPauseRet ==
  /\ pcp = "ret" /\ pcp' = "idle"
  /\ P("pauseRet", PauseRetOK, PauseRetEff)
  /\ UNCHANGED <<th, chn, please, qcl, kch, nl, pcr, pcs, bud>> /\ NoLog

LResumeRet ==
  /\ pcr = "ret" /\ pcr' = "idle"
  /\ P("resumeRet", ResumeRetOK, ResumeRetEff)
  /\ UNCHANGED <<th, chn, please, qcl, kch, nl, pcp, pcs, bud>> /\ NoLog

LStopClose ==
  /\ pcs = "close" /\ pcs' = "ret" /\ qcl' = TRUE
  /\ Internal
  /\ UNCHANGED <<th, chn, please, kch, nl, pcp, pcr, bud>> /\ NoLog

LStopRet ==
  /\ pcs = "ret" /\ pcs' = "idle"
  /\ P("stopRet", StopRetOK, StopRetEff)
  /\ UNCHANGED <<th, chn, please, qcl, kch, nl, pcp, pcr, bud>> /\ NoLog

LibStep == \/ \E t \in Loops : LSel(t) \/ LPSel(t) \/ LChk(t)
           \/ LKaRet \/ LPauseRet \/ LResumeRet \/ LStopClose \/ LStopRet
Quiescent == ~ENABLED LibStep

\* ------------------------------------------------------------------ environment
EnvOK == Mode = "free" \/ Quiescent

\* a client call is answered: the code takes the step that follows it
Kid == IF Id > 0 THEN Id ELSE please
Fail(t) == IF t = 0 THEN "reterr" ELSE "wait"
CReply(t, ok) ==
  /\ EnvOK /\ th[t] \in CallPcs
  /\ ok \/ nfail < MaxFail
  /\ nfail' = (IF ok THEN nfail ELSE nfail + 1)
  /\ CASE th[t] = "grant" ->
            /\ ok => nl < MaxLease
            /\ IF ok THEN nl' = nl + 1 /\ please' = nl + 1 /\ Set(t, "put")
                     ELSE nl' = nl /\ please' = 0 /\ Set(t, Fail(t))
            /\ P("grant", GrantOK(10, ok, nl + 1), GrantEff(ok, nl + 1))
            /\ UNCHANGED <<chn, kch>>
       [] th[t] = "put" ->
            /\ Set(t, IF ok THEN "ka" ELSE Fail(t))
            /\ P("put", PutOK(please, cf.key, Kid, cf.val, ok), PutEff(please, Kid, ok))
            /\ UNCHANGED <<chn, kch, nl, please>>
       [] th[t] = "ka" ->
            /\ IF ok THEN /\ kch' = Upd(kch, please, "open")
                          /\ th' = Upd([th EXCEPT ![t] = IF t = 0 THEN "retok" ELSE "gone"],
                                       Cardinality(Threads), "sel")
                          /\ chn' = Upd(chn, Cardinality(Threads), please)
                     ELSE kch' = kch /\ Set(t, Fail(t)) /\ chn' = chn
            /\ P("kalive", KaliveOK(please, ok), KaliveEff(please, ok))
            /\ UNCHANGED <<nl, please>>
       [] OTHER ->
            /\ Set(t, CASE th[t] = "rvL" -> "wait" [] th[t] = "rvP" -> "psel" [] OTHER -> "gone")
            /\ P("revoke", RevokeOK(please, ok), RevokeEff(please, ok))
            /\ UNCHANGED <<chn, kch, nl, please>>
  /\ UNCHANGED <<qcl, pcp, pcr, pcs, nclose, nka, npause, nresume, nstop, nresp>>
  /\ Log([c |-> "reply", ok |-> ok])

CKa ==
  /\ EnvOK /\ th[0] = "idle" /\ Live = {} /\ nka < MaxKa
  /\ Set(0, "grant") /\ nka' = nka + 1
  /\ P("kaCall", KaCallOK, KaCallEff)
  /\ UNCHANGED <<chn, please, qcl, kch, nl, pcp, pcr, pcs, nfail, nclose, npause, nresume, nstop, nresp>>
  /\ Log([c |-> "ka"])

CPause ==
  /\ EnvOK /\ pcp = "idle" /\ npause < MaxPause
  /\ pcp' = "send" /\ npause' = npause + 1
  /\ P("pauseCall", PauseCallOK, PauseCallEff)
  /\ UNCHANGED <<th, chn, please, qcl, kch, nl, pcr, pcs, nfail, nclose, nka, nresume, nstop, nresp>>
  /\ Log([c |-> "pause"])

CResume ==
  /\ EnvOK /\ pcr = "idle" /\ nresume < MaxResume
  /\ pcr' = "send" /\ nresume' = nresume + 1
  /\ P("resumeCall", ResumeCallOK, ResumeCallEff)
  /\ UNCHANGED <<th, chn, please, qcl, kch, nl, pcp, pcs, nfail, nclose, nka, npause, nstop, nresp>>
  /\ Log([c |-> "resume"])

CStop ==
  /\ EnvOK /\ pcs = "idle" /\ nstop < MaxStop
  /\ pcs' = "close" /\ nstop' = nstop + 1
  /\ P("stopCall", StopCallOK, StopCallEff)
  /\ UNCHANGED <<th, chn, please, qcl, kch, nl, pcp, pcr, nfail, nclose, nka, npause, nresume, nresp>>
  /\ Log([c |-> "stop"])

CClose(L) ==
  /\ EnvOK /\ L \in DOMAIN kch /\ kch[L] = "open" /\ nclose < MaxClose
  /\ kch' = [kch EXCEPT ![L] = "closed"] /\ nclose' = nclose + 1
  /\ P("close", CloseOK(L), CloseEff(L))
  /\ UNCHANGED <<th, chn, please, qcl, nl, pcp, pcr, pcs, nfail, nka, npause, nresume, nstop, nresp>>
  /\ Log([c |-> "close", l |-> L])

\* a keep-alive response arrives on an open stream (the loop that selects on it, if any, takes it
\* and selects again)
CResp(L) ==
  /\ EnvOK /\ L \in DOMAIN kch /\ kch[L] = "open" /\ nresp < MaxResp
  /\ nresp' = nresp + 1
  /\ P("karesp", KaRespOK(L), KaRespEff)
  /\ UNCHANGED <<th, chn, please, qcl, kch, nl, pcp, pcr, pcs, nfail, nclose, nka, npause, nresume, nstop>>
  /\ Log([c |-> "resp", l |-> L])

\* time passes: the ticker of a waiting doKeepAlive fires
CTick(t) ==
  /\ EnvOK /\ th[t] = "wait"
  /\ Set(t, "chk") /\ Internal
  /\ UNCHANGED <<chn, please, qcl, kch, nl, pcp, pcr, pcs, bud>>
  /\ Log([c |-> "tick"])

EnvStep == \/ \E t \in Threads, ok \in BOOLEAN : CReply(t, ok)
           \/ CKa \/ CPause \/ CResume \/ CStop
           \/ \E L \in DOMAIN kch : CClose(L) \/ CResp(L)
           \/ \E t \in Loops : CTick(t)

\* one named action per step of the code / move of the environment (TLC -coverage: none is dead);
\* exploration stops at the first step of the code that Layer P forbids
Go == viol = ""
EnvGo == viol = "" /\ ncmd < MaxCmd
ASel       == Go /\ \E t \in Loops : LSel(t)
APausedSel == Go /\ \E t \in Loops : LPSel(t)
AChkQuit   == Go /\ \E t \in Loops : LChk(t)
AKaRet     == Go /\ LKaRet
APauseRet  == Go /\ LPauseRet
AResumeRet == Go /\ LResumeRet
AStopClose == Go /\ LStopClose
AStopRet   == Go /\ LStopRet
EReply     == EnvGo /\ \E t \in Threads, ok \in BOOLEAN : CReply(t, ok)
EKa        == EnvGo /\ CKa
EPause     == EnvGo /\ CPause
EResume    == EnvGo /\ CResume
EStop      == EnvGo /\ CStop
EClose     == EnvGo /\ \E L \in DOMAIN kch : CClose(L)
EResp      == EnvGo /\ \E L \in DOMAIN kch : CResp(L)
ETick      == EnvGo /\ \E t \in Loops : CTick(t)
INext == \/ ASel \/ APausedSel \/ AChkQuit \/ AKaRet \/ APauseRet \/ AResumeRet \/ AStopClose \/ AStopRet
         \/ EReply \/ EKa \/ EPause \/ EResume \/ EStop \/ EClose \/ EResp \/ ETick
ISpec == IInit /\ [][INext]_vars

\* ------------------------------------------------------------------ what is checked
Refines == viol = ""
ITypeOK == /\ \A t \in Loops : th[t] \in {"sel", "rvL", "rvP", "rvQ", "psel", "wait", "chk", "grant", "put", "ka", "gone"}
           /\ th[0] \in {"idle", "grant", "put", "ka", "retok", "reterr"}
           /\ Cardinality(Live) <= 1                       \* never two loops
           /\ th[0] \in {"grant", "put", "ka"} => Live = {}
\* the protocol position Layer P has inferred is the one the code is in
Where ==
  IF th[0] \in {"grant", "put", "ka"} THEN "k" \o th[0]
  ELSE IF Live = {} THEN "idle"
  ELSE LET pc == th[CHOOSE t \in Live : TRUE]
       IN CASE pc = "sel" -> "alive" [] pc = "rvL" -> "rvlost" [] pc = "rvP" -> "rvpause" [] pc = "rvQ" -> "rvquit"
            [] pc = "psel" -> "paused" [] pc \in {"wait", "chk"} -> "tick" [] OTHER -> "r" \o pc
Agree == viol = "" => /\ ctl = Where
                      /\ cur = please
                      /\ (quit = "open") = (nstop = 0) /\ (quit = "closed" => qcl)
                      /\ \A L \in DOMAIN kch : gl[L].ka = kch[L]
\* when nothing moves, the observation Layer P demands is the one the code offers
Count(S) == Cardinality({t \in Loops : th[t] \in S})
B(x) == IF x THEN 1 ELSE 0
RestAgrees ==
  (viol = "" /\ Quiescent /\ \A t \in Threads : th[t] \notin CallPcs)
    => RestOK(Count({"sel", "psel"}), Count({"wait"}), B(pcp = "send"), B(pcr = "send"))

\* ------------------------------------------------------------------ generation
View == <<pvars, ivars, viol>>
PrintHist == (Emit /\ Mode = "rtc" /\ Quiescent /\ ncmd >= MinCmd) => PrintT("TRACE " \o ToJson(hist))
=============================================================================
