SPECIFICATION ISpec
CONSTANTS
  Id = 7
  MaxLease = 3
  MaxFail = 1
  MaxClose = 2
  MaxResp = 0
  MaxKa = 2
  MaxPause = 1
  MaxResume = 1
  MaxStop = 1
  Variant = "ok"
  Mode = "free"
  Emit = FALSE
  MinCmd = 0
  MaxCmd = 1000
INVARIANTS Refines ITypeOK Agree RestAgrees PTypeOK OneRegistration AliveRegistered PausedClean StoppedClean
VIEW View
CHECK_DEADLOCK FALSE
