------------------------------- MODULE PubMC -------------------------------
(* Layer P on its own: every observable event is offered whenever its guard holds (the most
   liberal publisher the protocol admits, against an environment that answers every call
   either way, ends keep-alive streams at will and calls the API in any order).  Checked:
   the predicates the guards add up to (one registration at a time, registered while
   renewing, nothing registered while paused / after Stop came to rest), and -- with
   -coverage -- that no event is dead.                                                      *)
EXTENDS Pub

CONSTANTS MIds, MaxLease, MaxWait

MInit == \E id \in MIds : PStart(Cf(id, 10, 1, 1))

Lid == Cardinality(Leases) + 1      \* the environment hands out leases 1, 2, 3, ...

MKaCall     == KaCallOK /\ KaCallEff
MKaRet      == \E err \in BOOLEAN : KaRetOK(err) /\ KaRetEff
MPauseCall  == pw + pt < MaxWait /\ PauseCallOK /\ PauseCallEff
MPauseRet   == PauseRetOK /\ PauseRetEff
MResumeCall == rw + rt < MaxWait /\ ResumeCallOK /\ ResumeCallEff
MResumeRet  == ResumeRetOK /\ ResumeRetEff
MStopCall   == quit # "closed" /\ StopCallOK /\ StopCallEff
MStopRet    == StopRetOK /\ quit = "closing" /\ StopRetEff
MGrant      == \E ok \in BOOLEAN : (ok => Lid <= MaxLease) /\ GrantOK(cf.ttl, ok, Lid) /\ GrantEff(ok, Lid)
MPut        == \E ok \in BOOLEAN : cur # 0 /\ PutOK(cur, cf.key, IF cf.id > 0 THEN cf.id ELSE cur, cf.val, ok)
                                   /\ PutEff(cur, IF cf.id > 0 THEN cf.id ELSE cur, ok)
MKalive     == \E ok \in BOOLEAN : cur # 0 /\ KaliveOK(cur, ok) /\ KaliveEff(cur, ok)
MRevoke     == \E ok \in BOOLEAN : cur # 0 /\ RevokeOK(cur, ok) /\ RevokeEff(cur, ok)
MClose      == \E L \in Leases : CloseOK(L) /\ CloseEff(L)
MSeeClosed  == SeeClosedOK /\ SeeClosedEff
MTakePause  == TakePauseOK /\ TakePauseEff
MSeeQuit    == SeeQuitOK /\ SeeQuitEff
MTakeResume == TakeResumeOK /\ TakeResumeEff
MTick       == \E g \in BOOLEAN : TickOK(g) /\ TickEff(g)

MNext == \/ MKaCall \/ MKaRet \/ MPauseCall \/ MPauseRet \/ MResumeCall \/ MResumeRet \/ MStopCall \/ MStopRet
         \/ MGrant \/ MPut \/ MKalive \/ MRevoke \/ MClose
         \/ MSeeClosed \/ MTakePause \/ MSeeQuit \/ MTakeResume \/ MTick

MSpec == MInit /\ [][MNext]_pvars

\* the observation is consistent: whenever the machine is parked, the rest event with the
\* counts the state implies is enabled (and only that one)
RestDefined ==
  (Parked /\ ctl \notin InCall /\ kac = "none" /\ pt = 0 /\ rt = 0) =>
     RestOK(IF ctl \in {"alive", "paused"} THEN 1 ELSE 0, IF ctl = "tick" THEN 1 ELSE 0, pw, rw)
\* a publisher that has been stopped never registers again once its last call is over
NoNewAfterStop == [][(quit = "closed" /\ ctl \in {"idle"} /\ kac = "none") => ctl' \in {"idle", "kgrant"}]_pvars
=============================================================================
