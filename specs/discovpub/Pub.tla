-------------------------------- MODULE Pub --------------------------------
(* Layer P (extension "discovpub", host C13): the life cycle of core/discov.Publisher as a
   protocol between the publisher and its environment, the etcd client, phrased over
   observable events only.

     "A Publisher can be used to publish the value to an etcd cluster on the given key."
     "KeepAlive keeps key:value alive."            Grant(TimeToLive) -> Put(key/<id or lease>,
                                                   value, lease) -> KeepAlive(lease); first error ends
                                                   the call; after nil the pair is registered and renewed
     "Pause pauses the renewing of key:value."     the registration is revoked, nothing is registered
     "Resume resumes the renewing of key:value."   until Resume; then the pair is registered again
     "Stop stops the renewing and revokes the registration."
     (publisher.go) when the keep-alive stream ends the old lease is revoked and the pair is
     registered again, one attempt per tick, until it succeeds or the publisher is stopped.
     (publisher_test.go) Stop before/while the loop runs -> exactly one Revoke of p.lease;
     Pause -> Revoke; Grant error -> NoLease, error returned.

   Observable events
     API          kaCall kaRet(err)  pauseCall pauseRet  resumeCall resumeRet  stopCall stopRet
     client calls grant(ttl, ok, L)  put(L, key, kid, val, ok)  kalive(L, ok)  revoke(L, ok)
                  (made by the publisher on the etcd client; the environment chooses ok / the lease)
     environment  close(L)  the keep-alive stream of L ends (lease expired, connection lost,
                            client context cancelled);  karesp(L)  a keep-alive response arrives
     observation  rest(loops, tick, pb, rb): nothing runs any more: number of renewing loops parked
                  in their select, of re-registration loops waiting for the next tick, of Pause /
                  Resume callers still blocked
   Unobservable instants (TLC infers them): the loop's select taking the end of the stream, a
   Pause, a Resume or the quit signal; the tick at which the re-registration loop looks at quit.

   What is demanded (guards):
     Order          Grant, Put, KeepAlive in this order with the lease just granted, ttl = TimeToLive,
                    key = <configured key>/<the configured id or else the lease>, value = the configured
                    value
     OneAtATime     a Grant is issued only when the previous registration has been revoked (or was
                    never completed): never two registrations of one publisher
     RevokeCurrent  Revoke is issued exactly once per completed registration, for the current
                    lease, and only because the stream ended, Pause was taken or quit was seen
     Paused         between the Revoke of a Pause and the Resume nothing is granted
     Stopped        once Stop has returned no new registration is started; a parked loop leaves
                    (revoking first when it holds a registration)
     Callers        Pause / Resume return only when a loop took them
     Rest           when nothing runs, the loops that exist are exactly the ones the protocol state
                    implies: none after Stop, none after a failed KeepAlive
   Where publisher.go has freedom (which ready case a select takes, a tick racing with Stop) the
   machine branches.  Leases abandoned after a failed Put / KeepAlive call are "orphans": the
   publisher never revokes them (etcd's TTL does); that is accepted, not demanded.            *)
EXTENDS Integers, FiniteSets, Sequences, TLC

VARIABLES
  cf,      \* what the publisher was made with: [id |-> WithId or 0, ttl |-> TimeToLive, key, val]
  ctl,     \* where the publisher's thread of control is
  quit,    \* "open" | "closing" (Stop called, not returned) | "closed"
  cur,     \* p.lease: lease of the current registration (attempt), 0 = none
  gl,      \* granted leases: L |-> [key, ka, st]
  kac,     \* KeepAlive() API call: "none" | "run" | "ok" | "err"  (ok/err: outcome fixed, not returned yet)
  pw, pt,  \* Pause callers: blocked / taken by the loop and not yet returned
  rw, rt   \* Resume callers

pvars == <<cf, ctl, quit, cur, gl, kac, pw, pt, rw, rt>>

Ctl == {"idle", "kgrant", "kput", "kka", "alive", "rvlost", "rvpause", "rvquit", "paused",
        "tick", "rgrant", "rput", "rka"}
InCall == {"kgrant", "kput", "kka", "rvlost", "rvpause", "rvquit", "rgrant", "rput", "rka"}
EmptyFn == [x \in {} |-> 0]
Leases == DOMAIN gl
Upd(f, x, v) == [y \in DOMAIN f \cup {x} |-> IF y = x THEN v ELSE f[y]]
Held(L) == L \in Leases /\ gl[L].st = "held"
Registered == {L \in Leases : gl[L].st = "held" /\ gl[L].key # 0}

Cf(id, t, k, v) == [id |-> id, ttl |-> t, key |-> k, val |-> v]
PStart(c) ==
  /\ cf = c /\ ctl = "idle" /\ quit = "open" /\ cur = 0 /\ gl = EmptyFn
  /\ kac = "none" /\ pw = 0 /\ pt = 0 /\ rw = 0 /\ rt = 0
PReset(c) ==
  /\ cf' = c /\ ctl' = "idle" /\ quit' = "open" /\ cur' = 0 /\ gl' = EmptyFn
  /\ kac' = "none" /\ pw' = 0 /\ pt' = 0 /\ rw' = 0 /\ rt' = 0

\* after a failed step: the KeepAlive() call returns the error / the loop waits for the next tick
Failed(c) == IF c \in {"kgrant", "kput", "kka"} THEN "idle" ELSE "tick"
KacFailed(c) == IF c \in {"kgrant", "kput", "kka"} THEN "err" ELSE kac

\* ---------------------------------------------------------------- API events
KaCallOK == ctl = "idle" /\ kac = "none"
KaCallEff == ctl' = "kgrant" /\ kac' = "run" /\ UNCHANGED <<cf, quit, cur, gl, pw, pt, rw, rt>>

KaRetOK(err) == kac = (IF err THEN "err" ELSE "ok")
KaRetEff == kac' = "none" /\ UNCHANGED <<cf, ctl, quit, cur, gl, pw, pt, rw, rt>>

PauseCallOK == TRUE
PauseCallEff == pw' = pw + 1 /\ UNCHANGED <<cf, ctl, quit, cur, gl, kac, pt, rw, rt>>
PauseRetOK == pt > 0                                                       \* Callers
PauseRetEff == pt' = pt - 1 /\ UNCHANGED <<cf, ctl, quit, cur, gl, kac, pw, rw, rt>>

ResumeCallOK == TRUE
ResumeCallEff == rw' = rw + 1 /\ UNCHANGED <<cf, ctl, quit, cur, gl, kac, pw, pt, rt>>
ResumeRetOK == rt > 0                                                      \* Callers
ResumeRetEff == rt' = rt - 1 /\ UNCHANGED <<cf, ctl, quit, cur, gl, kac, pw, pt, rw>>

StopCallOK == TRUE
StopCallEff == quit' = (IF quit = "open" THEN "closing" ELSE quit)
               /\ UNCHANGED <<cf, ctl, cur, gl, kac, pw, pt, rw, rt>>
StopRetOK == quit # "open"
StopRetEff == quit' = "closed" /\ UNCHANGED <<cf, ctl, cur, gl, kac, pw, pt, rw, rt>>

\* ---------------------------------------------------------------- client calls
GrantOK(t, ok, L) ==
  /\ ctl \in {"kgrant", "rgrant"}                                          \* Paused, Stopped: see Tick
  /\ t = cf.ttl                                                           \* Order
  /\ cur = 0 \/ ~Held(cur)                                                 \* OneAtATime
  /\ ok => L \notin Leases /\ L > 0                                        \* (environment: fresh lease)
GrantEff(ok, L) ==
  /\ IF ok THEN /\ gl' = Upd(gl, L, [key |-> 0, ka |-> "none", st |-> "held"])
                /\ cur' = L
                /\ ctl' = (IF ctl = "kgrant" THEN "kput" ELSE "rput")
                /\ kac' = kac
          ELSE /\ gl' = gl /\ cur' = 0
               /\ ctl' = Failed(ctl) /\ kac' = KacFailed(ctl)
  /\ UNCHANGED <<cf, quit, pw, pt, rw, rt>>

PutOK(L, key, kid, val, ok) ==
  /\ ctl \in {"kput", "rput"}
  /\ L = cur /\ Held(L)                                                    \* Order
  /\ key = cf.key /\ val = cf.val                                          \* the pair that was given
  /\ kid = (IF cf.id > 0 THEN cf.id ELSE L)
PutEff(L, kid, ok) ==
  /\ IF ok THEN /\ gl' = [gl EXCEPT ![L].key = kid]
                /\ ctl' = (IF ctl = "kput" THEN "kka" ELSE "rka") /\ kac' = kac
          ELSE /\ gl' = [gl EXCEPT ![L].st = "orphan"]
               /\ ctl' = Failed(ctl) /\ kac' = KacFailed(ctl)
  /\ UNCHANGED <<cf, quit, cur, pw, pt, rw, rt>>

KaliveOK(L, ok) ==
  /\ ctl \in {"kka", "rka"}
  /\ L = cur /\ Held(L) /\ gl[L].key # 0                                   \* Order
KaliveEff(L, ok) ==
  /\ IF ok THEN /\ gl' = [gl EXCEPT ![L].ka = "open"]
                /\ ctl' = "alive" /\ kac' = (IF ctl = "kka" THEN "ok" ELSE kac)
          ELSE /\ gl' = [gl EXCEPT ![L].st = "orphan"]
               /\ ctl' = Failed(ctl) /\ kac' = KacFailed(ctl)
  /\ UNCHANGED <<cf, quit, cur, pw, pt, rw, rt>>

RevokeOK(L, ok) ==
  /\ ctl \in {"rvlost", "rvpause", "rvquit"}                               \* RevokeCurrent
  /\ L = cur /\ Held(L)
RevokeEff(L, ok) ==
  /\ gl' = [gl EXCEPT ![L].st = IF ok THEN "revoked" ELSE "revfail"]
  /\ ctl' = CASE ctl = "rvlost" -> "tick" [] ctl = "rvpause" -> "paused" [] OTHER -> "idle"
  /\ UNCHANGED <<cf, quit, cur, kac, pw, pt, rw, rt>>

\* ---------------------------------------------------------------- environment
CloseOK(L) == L \in Leases /\ gl[L].ka = "open"
CloseEff(L) == gl' = [gl EXCEPT ![L].ka = "closed"] /\ UNCHANGED <<cf, ctl, quit, cur, kac, pw, pt, rw, rt>>
KaRespOK(L) == L \in Leases /\ gl[L].ka = "open"
KaRespEff == UNCHANGED pvars

\* ---------------------------------------------------------------- unobservable instants
SeeClosedOK == ctl = "alive" /\ gl[cur].ka = "closed"
SeeClosedEff == ctl' = "rvlost" /\ UNCHANGED <<cf, quit, cur, gl, kac, pw, pt, rw, rt>>

TakePauseOK == ctl = "alive" /\ pw > 0
TakePauseEff == ctl' = "rvpause" /\ pw' = pw - 1 /\ pt' = pt + 1
                /\ UNCHANGED <<cf, quit, cur, gl, kac, rw, rt>>

SeeQuitOK == ctl \in {"alive", "paused"} /\ quit # "open"
SeeQuitEff == ctl' = (IF ctl = "alive" THEN "rvquit" ELSE "idle")
              /\ UNCHANGED <<cf, quit, cur, gl, kac, pw, pt, rw, rt>>

TakeResumeOK == ctl = "paused" /\ rw > 0
TakeResumeEff == ctl' = "tick" /\ rw' = rw - 1 /\ rt' = rt + 1
                 /\ UNCHANGED <<cf, quit, cur, gl, kac, pw, pt>>

\* the tick at which doKeepAlive looks at quit: go = TRUE -> register again, FALSE -> leave
TickOK(go) == ctl = "tick" /\ (go => quit # "closed") /\ (~go => quit # "open")   \* Stopped
TickEff(go) == ctl' = (IF go THEN "rgrant" ELSE "idle")
               /\ UNCHANGED <<cf, quit, cur, gl, kac, pw, pt, rw, rt>>

\* ---------------------------------------------------------------- observation
\* nothing can move on its own (a loop waiting for its tick does not count as moving when the
\* observer says so: tick = 1)
Parked == ~SeeClosedOK /\ ~TakePauseOK /\ ~SeeQuitOK /\ ~TakeResumeOK
RestOK(loops, tick, pb, rb) ==
  /\ Parked /\ ctl \notin InCall /\ kac = "none" /\ pt = 0 /\ rt = 0       \* Callers
  /\ loops = (IF ctl \in {"alive", "paused"} THEN 1 ELSE 0)                \* Rest
  /\ tick = (IF ctl = "tick" THEN 1 ELSE 0)
  /\ pb = pw /\ rb = rw
RestEff == UNCHANGED pvars

\* ---------------------------------------------------------------- what the guards add up to
PTypeOK ==
  /\ ctl \in Ctl /\ quit \in {"open", "closing", "closed"} /\ kac \in {"none", "run", "ok", "err"}
  /\ cur \in Leases \cup {0} /\ pw >= 0 /\ pt >= 0 /\ rw >= 0 /\ rt >= 0
  /\ \A L \in Leases : /\ gl[L].st \in {"held", "revoked", "revfail", "orphan"}
                       /\ gl[L].ka \in {"none", "open", "closed"}
OneRegistration == Cardinality(Registered) <= 1
AliveRegistered == ctl = "alive" => cur \in Registered /\ gl[cur].ka # "none"
PausedClean == ctl = "paused" => Registered = {}
\* Stop has returned and everything has come to rest: nothing is registered, no loop is left
AtRest == Parked /\ ctl \in {"idle", "alive", "paused"} /\ kac = "none"
StoppedClean == (quit = "closed" /\ AtRest) => ctl = "idle" /\ Registered = {}
=============================================================================
