SPECIFICATION ISpec
CONSTANTS
  Id = 0
  MaxLease = 3
  MaxFail = 2
  MaxClose = 1
  MaxResp = 0
  MaxKa = 1
  MaxPause = 2
  MaxResume = 1
  MaxStop = 2
  Variant = "ok"
  Mode = "free"
  Emit = FALSE
  MinCmd = 0
  MaxCmd = 1000
INVARIANTS Refines ITypeOK Agree RestAgrees PTypeOK OneRegistration AliveRegistered PausedClean StoppedClean
VIEW View
CHECK_DEADLOCK FALSE
