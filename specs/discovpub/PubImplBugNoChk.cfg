SPECIFICATION ISpec
CONSTANTS
  Id = 0
  MaxLease = 3
  MaxFail = 1
  MaxClose = 1
  MaxResp = 0
  MaxKa = 1
  MaxPause = 1
  MaxResume = 1
  MaxStop = 1
  Variant = "nochk"
  Mode = "free"
  Emit = FALSE
  MinCmd = 0
  MaxCmd = 1000
INVARIANTS Refines RestAgrees
VIEW View
CHECK_DEADLOCK FALSE
