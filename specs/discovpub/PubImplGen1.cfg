SPECIFICATION ISpec
CONSTANTS
  Id = 0
  MaxLease = 3
  MaxFail = 1
  MaxClose = 1
  MaxResp = 1
  MaxKa = 1
  MaxPause = 1
  MaxResume = 1
  MaxStop = 1
  Variant = "ok"
  Mode = "rtc"
  Emit = TRUE
  MinCmd = 3
  MaxCmd = 14
INVARIANTS Refines PrintHist
VIEW View
CHECK_DEADLOCK FALSE
