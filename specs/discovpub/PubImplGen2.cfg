SPECIFICATION ISpec
CONSTANTS
  Id = 7
  MaxLease = 3
  MaxFail = 2
  MaxClose = 1
  MaxResp = 0
  MaxKa = 2
  MaxPause = 0
  MaxResume = 0
  MaxStop = 1
  Variant = "ok"
  Mode = "rtc"
  Emit = TRUE
  MinCmd = 3
  MaxCmd = 16
INVARIANTS Refines PrintHist
VIEW View
CHECK_DEADLOCK FALSE
