------------------------------ MODULE PubTrace ------------------------------
(* Trace validation for the extension "discovpub": what the real core/discov.Publisher did --
   API calls and returns, the calls it made on the (fake) etcd client with the answers the
   driver gave, stream ends / keep-alive responses the driver injected, and the "rest"
   observations taken from goroutine dumps when nothing was running -- must be a behaviour
   of Pub.tla.  The instants the driver cannot see (which ready case a select took, the tick
   at which doKeepAlive looked at quit) are silent steps TLC places itself; at most two
   can follow each other (paused -> tick -> rgrant), so the search stays bounded.

     reset     id ttl key val          a new publisher (WithId(id) when id > 0), TimeToLive = ttl
     kaCall    / kaRet err             Publisher.KeepAlive()
     pauseCall / pauseRet,  resumeCall / resumeRet,  stopCall / stopRet
     grant     ttl ok l                Grant(ttl) was called; answered with lease l (ok) or an error
     put       l key kid val ok        Put("k<key>/<kid>", "v<val>", WithLease(l))
     kalive    l ok                    KeepAlive(l): a stream was handed out (ok) or an error
     revoke    l ok                    Revoke(l)
     close     l                       the driver is about to end the stream of l
     karesp    l                       the driver is about to put a response on the stream of l
     rest      loops tick pb rb        goroutine dump with every goroutine of this publisher parked *)
EXTENDS Pub, TraceKit

VARIABLE l
tvars == <<pvars, l>>

E == Trace[l]
IsEvent(e) == l <= Len(Trace) /\ E.e = e /\ l' = l + 1
Silent == l <= Len(Trace) /\ l' = l

TReset      == IsEvent("reset")      /\ PReset(Cf(E.id, E.ttl, E.key, E.val))
TKaCall     == IsEvent("kaCall")     /\ KaCallOK /\ KaCallEff
TKaRet      == IsEvent("kaRet")      /\ KaRetOK(E.err) /\ KaRetEff
TPauseCall  == IsEvent("pauseCall")  /\ PauseCallOK /\ PauseCallEff
TPauseRet   == IsEvent("pauseRet")   /\ PauseRetOK /\ PauseRetEff
TResumeCall == IsEvent("resumeCall") /\ ResumeCallOK /\ ResumeCallEff
TResumeRet  == IsEvent("resumeRet")  /\ ResumeRetOK /\ ResumeRetEff
TStopCall   == IsEvent("stopCall")   /\ StopCallOK /\ StopCallEff
TStopRet    == IsEvent("stopRet")    /\ StopRetOK /\ StopRetEff
TGrant      == IsEvent("grant")      /\ GrantOK(E.ttl, E.ok, E.l) /\ GrantEff(E.ok, E.l)
TPut        == IsEvent("put")        /\ PutOK(E.l, E.key, E.kid, E.val, E.ok) /\ PutEff(E.l, E.kid, E.ok)
TKalive     == IsEvent("kalive")     /\ KaliveOK(E.l, E.ok) /\ KaliveEff(E.l, E.ok)
TRevoke     == IsEvent("revoke")     /\ RevokeOK(E.l, E.ok) /\ RevokeEff(E.l, E.ok)
TClose      == IsEvent("close")      /\ CloseOK(E.l) /\ CloseEff(E.l)
TKaResp     == IsEvent("karesp")     /\ KaRespOK(E.l) /\ KaRespEff
TRest       == IsEvent("rest")       /\ RestOK(E.loops, E.tick, E.pb, E.rb) /\ RestEff

\* what the driver cannot see
SSeeClosed  == Silent /\ SeeClosedOK /\ SeeClosedEff
STakePause  == Silent /\ TakePauseOK /\ TakePauseEff
SSeeQuit    == Silent /\ SeeQuitOK /\ SeeQuitEff
STakeResume == Silent /\ TakeResumeOK /\ TakeResumeEff
STick       == Silent /\ \E g \in BOOLEAN : TickOK(g) /\ TickEff(g)

TInit == PStart(Cf(0, 0, 0, 0)) /\ l = 1
TNext == \/ TReset \/ TKaCall \/ TKaRet \/ TPauseCall \/ TPauseRet \/ TResumeCall \/ TResumeRet
         \/ TStopCall \/ TStopRet \/ TGrant \/ TPut \/ TKalive \/ TRevoke \/ TClose \/ TKaResp \/ TRest
         \/ SSeeClosed \/ STakePause \/ SSeeQuit \/ STakeResume \/ STick
TSpec == TInit /\ [][TNext]_tvars

HW == HighWater(l)
=============================================================================
