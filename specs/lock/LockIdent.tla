------------------------------ MODULE LockIdent ------------------------------
(* C19 with the identities of the instances explicit (see LockPop.tla for why).

   RedisLock instances come into being one after the other (Create) - the property is about
   "every number of lock instances", not about a fixed cast - and each gets an identity from
   an identity generator. The store knows nothing but identities: the key holds the identity
   last written (kval), the lock script grants iff the key is free or carries the caller's
   identity, the release script deletes iff it carries the caller's identity. Which INSTANCE
   holds the key is the ghost `owner` (the instance whose script last set the key).

   Generators (constant Gen):
     "fresh"  an identity no instance created before has (what 16 random characters per
              instance amount to: a repeat has probability < 10^-18 for 2^24 instances)
     "wrap"   a per-process sequence number kept to a fixed width: seq % Width
     "any"    any identity at all (used only to check CensusLemma over all ident maps)

   Checked by TLC:
     LockIdentMC.cfg (fresh):  IdentDistinctMap, OwnerIsIdent, and every step is a step of
         RedisLock.tla (Refines; creating an instance is a stuttering step there) and every
         creation is a Census step of LockPop.tla with k = n (PopRefines); AtMostOneHolder,
         BeliefSound.
     LockIdentLemma.cfg (any): CensusLemma - the ident map is injective iff the number of
         identities equals the number of instances - for every ident map.
     LockIdentBugWrap*.cfg (wrap): documented counterexamples - the (Width+1)-th instance has
         the identity of the first; while the first holds the key the late-comer's Acquire is
         answered OK (AtMostOneHolder, Refines/NoSteal) and its Release deletes the key
         (Refines/OwnerOnlyRelease); PopRefines fails at the creation itself.              *)
EXTENDS Integers, FiniteSets, Sequences, TLC

CONSTANTS
  MaxInst,    \* instances are 1..MaxInst, created in this order
  Tokens,     \* identities
  SecsVals,   \* values for SetExpire
  Gen,        \* "fresh" | "wrap" | "any"
  Width       \* "wrap": the sequence number is kept modulo Width (0..Width-1 must be Tokens)

None    == -1
AllInst == 1..MaxInst

VARIABLES
  now,
  kval, kexp,   \* the redis key: identity stored (None: absent) and absolute expiry
  ident,        \* sequence: ident[i] = identity of instance i; Len(ident) instances exist
  secsF,        \* instance |-> configured seconds
  lease,        \* ghost, as in RedisLock: instance |-> end of the lease it was granted
  owner,        \* ghost: the instance whose lock script last set the key
  seq           \* identity generator: instances created so far in the process

vars == <<now, kval, kexp, ident, secsF, lease, owner, seq>>

Created == 1..Len(ident)
IdSet   == {ident[i] : i \in Created}
Made    == Len(ident)
Idents  == Cardinality(IdSet)

Live   == kval # None /\ now < kexp
Holder == IF Live THEN owner ELSE None
ExpAt  == IF Live THEN kexp ELSE 0

P   == INSTANCE RedisLock WITH holder <- Holder, expiresAt <- ExpAt, secs <- secsF
Pop == INSTANCE LockPop WITH made <- Made, idents <- Idents, born <- [i \in AllInst |-> 0]

Init ==
  /\ now = 0 /\ kval = None /\ kexp = 0
  /\ ident = <<>>
  /\ secsF = [i \in AllInst |-> 0]
  /\ lease = [i \in AllInst |-> 0]
  /\ owner = None /\ seq = 0

\* ---- NewRedisLock
NewToken(t) ==
  CASE Gen = "fresh" -> t \notin IdSet
    [] Gen = "wrap"  -> t = seq % Width
    [] Gen = "any"   -> TRUE

Create ==
  /\ Len(ident) < MaxInst
  /\ \E t \in Tokens : NewToken(t) /\ ident' = Append(ident, t)
  /\ seq' = seq + 1
  /\ UNCHANGED <<now, kval, kexp, secsF, lease, owner>>

\* ---- the two scripts, each one atomic step of the store (client steps and lost replies:
\* LockImpl.tla)
Acquire(i) ==
  LET px   == secsF[i] * 1000 + 500
      mine == Live /\ kval = ident[i]
  IN /\ i \in Created
     /\ IF mine \/ ~Live
          THEN /\ kval' = ident[i] /\ kexp' = now + px /\ owner' = i
               /\ lease' = [lease EXCEPT ![i] = now + px]
          ELSE UNCHANGED <<kval, kexp, owner, lease>>
     /\ UNCHANGED <<now, ident, secsF, seq>>

Release(i) ==
  /\ i \in Created
  /\ IF Live /\ kval = ident[i]
       THEN kval' = None /\ kexp' = 0 /\ owner' = None
       ELSE UNCHANGED <<kval, kexp, owner>>
  /\ lease' = [lease EXCEPT ![i] = 0]
  /\ UNCHANGED <<now, ident, secsF, seq>>

SetExpire(i, s) ==
  /\ i \in Created /\ secsF[i] # s
  /\ secsF' = [secsF EXCEPT ![i] = s]
  /\ UNCHANGED <<now, kval, kexp, ident, lease, owner, seq>>

Rem == IF Live THEN kexp - now ELSE 0
Tick(d) ==
  /\ d >= 1
  /\ now' = now + d
  /\ UNCHANGED <<kval, kexp, ident, secsF, lease, owner, seq>>

Next ==
  \/ Create
  \/ \E i \in AllInst : Acquire(i) \/ Release(i) \/ \E s \in SecsVals : SetExpire(i, s)
  \/ \E d \in {x \in {500} \cup (IF Live THEN {Rem - 1, Rem, Rem + 1} ELSE {}) : x >= 1} : Tick(d)

Spec == Init /\ [][Next]_vars

\* ---- what must hold
IdentDistinctMap == \A i, j \in Created : i # j => ident[i] # ident[j]
CensusLemma      == IdentDistinctMap <=> Pop!IdentDistinct
OwnerIsIdent     == Live => owner \in Created /\ ident[owner] = kval
                            /\ \A j \in Created : ident[j] = kval => j = owner

Refines         == P!LSpecAny(AllInst)       \* every step is a step of the abstract lock
BeliefSound     == P!BeliefSound
AtMostOneHolder == P!AtMostOneHolder
\* every creation is the creation event of LockPop.tla: one instance, one identity nobody had
PopRefines == [][Made' # Made => Pop!Census(1, Idents' - Idents, TRUE)]_vars

\* the state relative to the clock
View == <<Holder, Rem, IF Live THEN kval ELSE None, ident, secsF, seq,
          [i \in AllInst |-> IF lease[i] > now THEN lease[i] - now ELSE 0]>>
=============================================================================
