---------------------------- MODULE RedisLockWide ----------------------------
(* Property C19 over the WHOLE legal range of SetExpire.

   RedisLock.tla (the statement of C19; integer milliseconds) is what the lock is. It is
   silent about how large a lease may be, and rightly so: SetExpire takes an int and stores
   a uint32, so every value 0 .. 2^32-1 seconds is legal and the lease "configured seconds
   plus 500 ms" then reaches 4 294 967 295 500 ms. TLC's integers are 32 bit: such times,
   and already the seconds themselves, cannot be written as one TLC integer.

   This module is RedisLock.tla with every time and every number of seconds kept as a
   two-limb number <<hi, lo>> (value hi * Base + lo, 0 <= lo < Base), and with nothing
   else changed: same variables, same named actions, same case analysis. That it IS the
   same lock is model-checked in both directions at small bases, where carries and borrows
   happen all the time (RedisLockWideMC.tla: every step of this module is a step of
   RedisLock.tla under  value(<<hi, lo>>) = hi * Base + lo ;  RedisLockWideConv.tla: every
   step of RedisLock.tla is a step of this module under the inverse map). Trace validation
   (RedisLockWideTrace.tla) uses Base = 10^6: one limb of milliseconds below 10^6, hi limb
   up to 4 294 967 for the longest lease, both far inside 32 bits; the clock of a trace may
   run to 2 * 10^15 ms.                                                                   *)
EXTENDS Integers, FiniteSets

CONSTANT Base        \* limb size, >= 2

None      == -1
Tolerance == 500     \* ms added to the configured seconds (redislock.go: tolerance)
MsPerSec  == 1000    \* redislock.go: millisPerSecond

\* ------------------------------------------------------------------ two-limb numbers
WZero       == <<0, 0>>
IsWide(a)   == a[1] \in Nat /\ a[2] \in 0..(Base - 1)
WNorm(h, l) == <<h + (l \div Base), l % Base>>            \* l >= 0, any size
WOf(n)      == WNorm(0, n)                                \* a (small) natural as a wide number
WAdd(a, b)  == WNorm(a[1] + b[1], a[2] + b[2])
WLt(a, b)   == a[1] < b[1] \/ (a[1] = b[1] /\ a[2] < b[2])
WLe(a, b)   == ~WLt(b, a)
\* a - b for a >= b
WSub(a, b)  == IF a[2] >= b[2] THEN <<a[1] - b[1], a[2] - b[2]>>
                               ELSE <<a[1] - b[1] - 1, a[2] + Base - b[2]>>
\* seconds (wide) -> lease in ms (wide): (hi * Base + lo) * 1000 + 500
WLeaseMs(s) == WNorm(s[1] * MsPerSec, s[2] * MsPerSec + Tolerance)

VARIABLES
  now,        \* clock, ms (wide)
  holder,     \* instance whose id is the value of the key, None if the key does not exist
  expiresAt,  \* absolute time (wide) at which the key disappears; WZero iff holder = None
  secs,       \* instance |-> configured seconds (wide)
  lease       \* instance |-> end (wide) of the lease it was last granted and has not given up

lvars == <<now, holder, expiresAt, secs, lease>>

Insts      == DOMAIN secs
LeaseMs(i) == WLeaseMs(secs[i])

LInit(I) ==
  /\ now = WZero /\ holder = None /\ expiresAt = WZero
  /\ secs = [i \in I |-> WZero]
  /\ lease = [i \in I |-> WZero]

Grant(i) == holder' = i /\ expiresAt' = WAdd(now, LeaseMs(i))

\* see RedisLock.tla for the reading of each case
Acquire(i, ok, err) ==
  /\ UNCHANGED <<now, secs>>
  /\ LET until == WAdd(now, LeaseMs(i)) IN
     IF err
       THEN /\ ok = FALSE
            /\ lease' = [lease EXCEPT ![i] = IF WLt(until, @) THEN until ELSE @]
            /\ \/ UNCHANGED <<holder, expiresAt>>
               \/ holder \in {None, i} /\ Grant(i)
       ELSE /\ ok = (holder \in {None, i})
            /\ IF ok THEN /\ Grant(i)
                          /\ lease' = [lease EXCEPT ![i] = until]
                     ELSE UNCHANGED <<holder, expiresAt, lease>>

Release(i, ok, err) ==
  /\ UNCHANGED <<now, secs>>
  /\ lease' = [lease EXCEPT ![i] = WZero]
  /\ IF err
       THEN /\ ok = FALSE
            /\ \/ UNCHANGED <<holder, expiresAt>>
               \/ holder = i /\ holder' = None /\ expiresAt' = WZero
       ELSE /\ ok = (holder = i)
            /\ IF ok THEN holder' = None /\ expiresAt' = WZero
                     ELSE UNCHANGED <<holder, expiresAt>>

SetExpire(i, s) ==
  /\ IsWide(s)
  /\ secs' = [secs EXCEPT ![i] = s]
  /\ UNCHANGED <<now, holder, expiresAt, lease>>

Advance(d) ==
  /\ IsWide(d)
  /\ now' = WAdd(now, d)
  /\ IF holder # None /\ WLe(expiresAt, WAdd(now, d))
       THEN holder' = None /\ expiresAt' = WZero
       ELSE UNCHANGED <<holder, expiresAt>>
  /\ UNCHANGED <<secs, lease>>

\* any step, evaluable on a given pair of states (refinement target of RedisLock.tla)
AnyStep ==
  \/ \E i \in Insts : \E ok, err \in BOOLEAN : Acquire(i, ok, err) \/ Release(i, ok, err)
  \/ \E i \in Insts : SetExpire(i, secs'[i])
  \/ (WLe(now, now') /\ Advance(WSub(now', now)))

LSpecAny(I) == LInit(I) /\ [][AnyStep]_lvars

\* ------------------------------------------------------------------ properties
TypeOK ==
  /\ IsWide(now) /\ IsWide(expiresAt)
  /\ holder \in Insts \cup {None}
  /\ \A i \in Insts : IsWide(secs[i]) /\ IsWide(lease[i])
  /\ DOMAIN lease = Insts

Canonical == /\ (holder = None) <=> (expiresAt = WZero)
             /\ holder # None => WLt(now, expiresAt)

BeliefSound == \A i \in Insts : WLt(now, lease[i]) => holder = i /\ WLe(lease[i], expiresAt)

LiveHolders == {i \in Insts : WLt(now, lease[i])}
AtMostOneHolder == \A i, j \in LiveHolders : i = j

AcqStep(i) == \E ok, err \in BOOLEAN : Acquire(i, ok, err)
\* "the lease lasts the configured seconds plus 500 ms", in limbs
LeaseLength ==
  \A i \in Insts : AcqStep(i) /\ holder' = i /\ expiresAt' # expiresAt
                     => expiresAt' = WAdd(now, WNorm(secs[i][1] * 1000, secs[i][2] * 1000 + 500))
=============================================================================
