SPECIFICATION MSpec
CONSTANTS
  Base = 1000000
  Inst = {0, 1}
  SecsLow = {4294968}
  SecsHigh = {2147483647}
  MaxOps = 5
  Emit = TRUE
  ViewOps = 1
  TransCover = TRUE
  ErrEffects = FALSE
  ViewClock = FALSE
  Faults = FALSE
INVARIANTS PrintHist
VIEW View
CHECK_DEADLOCK FALSE
