SPECIFICATION Spec
CONSTANTS
  MaxInst = 4
  Tokens = {0, 1, 2}
  SecsVals = {0}
  Gen = "any"
  Width = 2
INVARIANTS CensusLemma
VIEW View
CHECK_DEADLOCK FALSE
