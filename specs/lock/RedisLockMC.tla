----------------------------- MODULE RedisLockMC -----------------------------
(* Bounded model checking of the abstract lock (RedisLock.tla) and generation of
   operation histories for replay on the real RedisLock (property C19).

   Model checking (Emit = FALSE): every sequence of Acquire / Release / SetExpire /
   clock advance / store outage over the instances Inst, of any length: the state is
   viewed relative to the clock (View), advances are chosen around the lease boundary
   (remaining-1, remaining, remaining+1) or as a fixed 500 ms step, so the quotient is
   finite and TLC explores it exhaustively without a depth bound.

   Generation (Emit = TRUE): the same machine with a history variable hidden by the
   VIEW; one shortest operation history is printed per distinct reachable state
   ("TRACE <json>"), at most MaxOps operations long.                              *)
EXTENDS RedisLock, Sequences, TLC, Json

CONSTANTS
  Inst,        \* set of instance numbers, e.g. {0,1,2}
  SecsVals,    \* values SetExpire may configure
  MaxOps,      \* generation only: longest history
  Emit,        \* TRUE: print histories
  ViewOps,     \* generation: how many trailing operations are part of the VIEW (0: one history per
               \* state; 1: one per (state, operation that led to it) - so that refused calls,
               \* which do not change the state, are generated too; 2: pairs of operations)
  TransCover,  \* generation: TRUE = the state an operation started from is part of the VIEW too, i.e.
               \* one history per distinct TRANSITION (state, operation, answer) instead of per state
  ErrEffects   \* TRUE: a failed call may still have run its script (lost reply); FALSE: outages only

VARIABLES
  store,       \* "up" | "down": harness-controlled outage of the store
  hist,        \* operation history (generation; hidden by the VIEW)
  prev         \* TransCover: the (clock-relative) state before the last operation, else 0

mvars == <<now, holder, expiresAt, secs, lease, store, hist, prev>>

MInit == LInit(Inst) /\ store = "up" /\ hist = <<>> /\ prev = 0

Rem == IF holder = None THEN 0 ELSE expiresAt - now
Beliefs == {lease[i] - now : i \in Inst}
AdvChoices == {d \in {500} \cup (IF holder = None THEN {} ELSE {Rem - 1, Rem, Rem + 1})
                          \cup {b : b \in Beliefs} : d >= 1}

Log(r) == hist' = IF Emit THEN Append(hist, r) ELSE hist
Op(op, i, v) == [op |-> op, i |-> i, v |-> v, r |-> FALSE]

NoEffect == holder' = holder /\ expiresAt' = expiresAt

\* r: the answer the abstract lock gives (part of the history so that a granted and a refused
\* call leading to the same state are different VIEW states; the driver ignores it)
MAcquire(i) ==
  \E ok \in BOOLEAN :
    /\ IF store = "up" THEN Acquire(i, ok, FALSE)
                       ELSE ok = FALSE /\ Acquire(i, FALSE, TRUE) /\ (ErrEffects \/ NoEffect)
    /\ Log([op |-> "acquire", i |-> i, v |-> 0, r |-> ok]) /\ UNCHANGED store
MRelease(i) ==
  \E ok \in BOOLEAN :
    /\ IF store = "up" THEN Release(i, ok, FALSE)
                       ELSE ok = FALSE /\ Release(i, FALSE, TRUE) /\ (ErrEffects \/ NoEffect)
    /\ Log([op |-> "release", i |-> i, v |-> 0, r |-> ok]) /\ UNCHANGED store
MSetExpire(i, s) == SetExpire(i, s) /\ secs[i] # s /\ Log(Op("setExpire", i, s)) /\ UNCHANGED store
MAdvance(d) == Advance(d) /\ Log(Op("advance", 0, d)) /\ UNCHANGED store
MFault ==
  /\ store' = IF store = "up" THEN "down" ELSE "up"
  /\ Log(Op("fault", 0, IF store = "up" THEN 1 ELSE 0))
  /\ UNCHANGED lvars

\* the state relative to the clock
StateView == <<holder, Rem, secs, [i \in Inst |-> IF lease[i] > now THEN lease[i] - now ELSE 0], store>>

MNext ==
  /\ Emit => Len(hist) < MaxOps
  /\ prev' = IF TransCover THEN StateView ELSE 0
  /\ \/ \E i \in Inst : MAcquire(i) \/ MRelease(i) \/ \E s \in SecsVals : MSetExpire(i, s)
     \/ \E d \in AdvChoices : MAdvance(d)
     \/ MFault

MSpec == MInit /\ [][MNext]_mvars

\* of hist only the last ViewOps operations are part of the VIEW
LastN(h, n) == IF Len(h) <= n THEN h ELSE SubSeq(h, Len(h) - n + 1, Len(h))
View == <<StateView, LastN(hist, ViewOps), prev>>

\* action properties of C19, over the named actions
PropOwnerOnlyRelease    == [][OwnerOnlyRelease]_lvars
PropLateReleaseHarmless == [][LateReleaseHarmless]_lvars
PropNoSteal             == [][NoSteal]_lvars
PropLeaseLength         == [][LeaseLength]_lvars

PrintHist == (Emit /\ Len(hist) > 0) => PrintT("TRACE " \o ToJson(hist))
=============================================================================
