SPECIFICATION ISpec
CONSTANTS
  Proc = {1, 2, 3}
  InstOf <- InstOf3
  SecsVals = {0, 1}
  Variant = "ok"
INVARIANTS BeliefSound AtMostOneHolder GrantSound
PROPERTIES Refines
VIEW View
CHECK_DEADLOCK FALSE
