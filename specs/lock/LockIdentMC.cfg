SPECIFICATION Spec
CONSTANTS
  MaxInst = 3
  Tokens = {0, 1, 2, 3}
  SecsVals = {0, 1}
  Gen = "fresh"
  Width = 2
INVARIANTS IdentDistinctMap CensusLemma OwnerIsIdent BeliefSound AtMostOneHolder
PROPERTIES Refines PopRefines
VIEW View
CHECK_DEADLOCK FALSE
