---------------------------- MODULE RedisLockInd ----------------------------
(* Bonus for C19 (thorough tier, never the verdict): with Apalache, the invariant of
   the abstract lock is inductive for EVERY clock value, lease length and advance, not
   only for the small values TLC enumerates (3 instances):
     apalache-mc check --init=IndInit --inv=IndInv --length=0 --next=IndNext RedisLockInd.tla
     apalache-mc check --init=IndInv  --inv=IndInv --length=1 --next=IndNext RedisLockInd.tla
     apalache-mc check --init=IndInv  --inv=AtMostOneHolder --length=0 --next=IndNext RedisLockInd.tla *)
EXTENDS RedisLock

Ids == {0, 1, 2}

IndInit == LInit(Ids)

IndNext ==
  \/ \E i \in Ids : \E ok, err \in BOOLEAN : Acquire(i, ok, err) \/ Release(i, ok, err)
  \/ \E i \in Ids : \E s \in Nat : SetExpire(i, s)
  \/ \E d \in Nat : Advance(d)

IndInv ==
  /\ now \in Nat /\ expiresAt \in Nat
  /\ holder \in Ids \cup {None}
  /\ secs \in [Ids -> Nat]
  /\ lease \in [Ids -> Nat]
  /\ Canonical
  /\ BeliefSound
=============================================================================
