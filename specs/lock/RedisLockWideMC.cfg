SPECIFICATION MSpec
CONSTANTS
  Base = 3
  Inst = {0, 1}
  SecsLow = {0, 4}
  SecsHigh = {}
  MaxOps = 0
  Emit = FALSE
  ViewOps = 0
  TransCover = FALSE
  ErrEffects = TRUE
  ViewClock = TRUE
  Faults = TRUE
INVARIANTS TypeOK Canonical BeliefSound AtMostOneHolder PBeliefSound PAtMostOneHolder PCanonical SubSound
PROPERTIES Refines PropLeaseLength
VIEW View
CHECK_DEADLOCK FALSE
