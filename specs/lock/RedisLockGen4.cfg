SPECIFICATION MSpec
CONSTANTS
  Inst = {0, 1, 2, 3}
  SecsVals = {0, 2}
  MaxOps = 6
  Emit = TRUE
  ViewOps = 1
  TransCover = FALSE
  ErrEffects = FALSE
INVARIANTS PrintHist
VIEW View
CHECK_DEADLOCK FALSE
