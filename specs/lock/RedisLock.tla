------------------------------ MODULE RedisLock ------------------------------
(* Layer P for property C19: what a lease lock on ONE redis key is, in terms of
   what callers of RedisLock.Acquire / Release / SetExpire can observe, with time
   as an explicit integer clock (milliseconds; miniredis FastForward on the Go side).

   Instances are integers (the driver numbers its RedisLock objects 0..n-1; the
   random 16 character id of an instance is what makes it "this" instance).
   The state is the abstract content of the key - who holds it and until when -
   plus what every instance was last told (its lease), so that mutual exclusion
   can be stated the way a caller experiences it.

   This module has no constants: RedisLockMC.tla (bounded model checking and test
   generation), RedisLockTrace.tla (validation of traces recorded from the real
   code) and LockImpl.tla (implementation-shaped model that must refine this one)
   all build on the same named actions.                                          *)
EXTENDS Integers, FiniteSets

None      == -1      \* "no holder"
Tolerance == 500     \* ms added to the configured seconds (redislock.go: tolerance)

VARIABLES
  \* @type: Int;
  now,        \* clock, ms
  \* @type: Int;
  holder,     \* instance whose id is the value of the key, None if the key does not exist
  \* @type: Int;
  expiresAt,  \* absolute time at which the key disappears; 0 iff holder = None
  \* @type: Int -> Int;
  secs,       \* instance |-> configured seconds (SetExpire; 0 for a new instance)
  \* @type: Int -> Int;
  lease       \* instance |-> end of the lease it was last granted and has not given up (0: none)

lvars == <<now, holder, expiresAt, secs, lease>>

Insts      == DOMAIN secs
LeaseMs(i) == secs[i] * 1000 + Tolerance

\* @type: (Set(Int)) => Bool;
LInit(I) ==
  /\ now = 0 /\ holder = None /\ expiresAt = 0
  /\ secs = [i \in I |-> 0]
  /\ lease = [i \in I |-> 0]

\* the effect of a granting run of the lock script
Grant(i) == holder' = i /\ expiresAt' = now + LeaseMs(i)

(* Acquire by instance i answering (ok, err).
   No error: granted iff the key is free or already i's (then the lease is refreshed);
   an unexpired key of somebody else means ok = FALSE and nothing changes.
   Error (store down, breaker open, lost reply ...): never a grant; the property does not say
   whether the script ran, so the key either is untouched or was (legally) taken/refreshed.
   A caller that already held a lease can then only rely on the shorter of its old lease and
   the one it just asked for (model checking found the case: holder lowers its seconds,
   re-acquires, the reply is lost - the key now expires earlier than the holder was told). *)
Acquire(i, ok, err) ==
  /\ UNCHANGED <<now, secs>>
  /\ IF err
       THEN /\ ok = FALSE
            /\ lease' = [lease EXCEPT ![i] = IF @ > now + LeaseMs(i) THEN now + LeaseMs(i) ELSE @]
            /\ \/ UNCHANGED <<holder, expiresAt>>
               \/ holder \in {None, i} /\ Grant(i)
       ELSE /\ ok = (holder \in {None, i})
            /\ IF ok THEN /\ Grant(i)
                          /\ lease' = [lease EXCEPT ![i] = now + LeaseMs(i)]
                     ELSE UNCHANGED <<holder, expiresAt, lease>>

(* Release by instance i answering (ok, err): frees the key iff i is the current holder
   and says so; otherwise false and the key is untouched (in particular a late release by
   an expired holder leaves the new holder alone). The caller gives up its lease either way. *)
Release(i, ok, err) ==
  /\ UNCHANGED <<now, secs>>
  /\ lease' = [lease EXCEPT ![i] = 0]
  /\ IF err
       THEN /\ ok = FALSE
            /\ \/ UNCHANGED <<holder, expiresAt>>
               \/ holder = i /\ holder' = None /\ expiresAt' = 0
       ELSE /\ ok = (holder = i)
            /\ IF ok THEN holder' = None /\ expiresAt' = 0
                     ELSE UNCHANGED <<holder, expiresAt>>

SetExpire(i, s) ==
  /\ s >= 0
  /\ secs' = [secs EXCEPT ![i] = s]
  /\ UNCHANGED <<now, holder, expiresAt, lease>>

\* the clock moves by d ms; a key whose time has come is gone (now >= expiresAt)
Advance(d) ==
  /\ d >= 0
  /\ now' = now + d
  /\ IF holder # None /\ now + d >= expiresAt
       THEN holder' = None /\ expiresAt' = 0
       ELSE UNCHANGED <<holder, expiresAt>>
  /\ UNCHANGED <<secs, lease>>

\* any step of the abstract lock, written so that TLC can evaluate it on a given pair of
\* states (used as the refinement target of LockImpl)
AnyStep ==
  \/ \E i \in Insts : \E ok, err \in BOOLEAN : Acquire(i, ok, err) \/ Release(i, ok, err)
  \/ \E i \in Insts : SetExpire(i, secs'[i])
  \/ (now' >= now /\ Advance(now' - now))

LSpecAny(I) == LInit(I) /\ [][AnyStep]_lvars

\* ------------------------------------------------------------------ properties
TypeOK ==
  /\ now \in Nat /\ expiresAt \in Nat
  /\ holder \in Insts \cup {None}
  /\ \A i \in Insts : secs[i] \in Nat /\ lease[i] \in Nat
  /\ DOMAIN lease = Insts

\* the key exists exactly while its time has not come
Canonical == /\ (holder = None) <=> (expiresAt = 0)
             /\ holder # None => now < expiresAt

\* an instance that was told "you hold it until t" and has not released really holds it until t
BeliefSound == \A i \in Insts : now < lease[i] => holder = i /\ lease[i] <= expiresAt

\* C19, first sentence: at any moment at most one instance holds the key
LiveHolders == {i \in Insts : now < lease[i]}
AtMostOneHolder == \A i, j \in LiveHolders : i = j

\* C19 as action properties over the named actions (checked by TLC as [][...]_lvars)
RelStep(i) == \E ok, err \in BOOLEAN : Release(i, ok, err)
AcqStep(i) == \E ok, err \in BOOLEAN : Acquire(i, ok, err)
OwnerOnlyRelease ==
  \A i \in Insts : RelStep(i) /\ holder' # holder => holder = i /\ holder' = None
LateReleaseHarmless ==
  \A i \in Insts : RelStep(i) /\ holder \notin {None, i} => holder' = holder /\ expiresAt' = expiresAt
NoSteal ==
  \A i \in Insts : AcqStep(i) /\ holder \notin {None, i} => holder' = holder /\ expiresAt' = expiresAt
LeaseLength ==
  \A i \in Insts : AcqStep(i) /\ holder' = i /\ expiresAt' # expiresAt
                     => expiresAt' = now + 1000 * secs[i] + 500
=============================================================================
