SPECIFICATION ISpec
CONSTANTS
  Proc = {1, 2}
  InstOf <- InstOf2
  SecsVals = {0, 1}
  Variant = "no-refresh"
INVARIANTS BeliefSound AtMostOneHolder GrantSound
PROPERTIES Refines
VIEW View
CHECK_DEADLOCK FALSE
