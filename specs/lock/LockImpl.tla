------------------------------- MODULE LockImpl -------------------------------
(* Layer I for C19: the lock the way core/stores/redis/redislock.go builds it.

     store side   one redis key: kval (the id stored, None if absent) and kexp (absolute
                  expiry, PX); a key whose time has come does not exist (Live).
                  lockscript.lua : if GET key == id then SET key id PX ms; return "OK"
                                   else return SET key id NX PX ms      ("OK" or nil)
                  delscript.lua  : if GET key == id then return DEL key else return 0
                  a script runs atomically (one action).
     client side  goroutines Proc, each using the RedisLock instance InstOf[p] (several
                  goroutines may share an instance = share its id and its seconds field):
                  AcquireCtx: seconds := atomic load          (AcqLoad)
                              run the script                  (AcqScript / AcqFail)
                              turn the reply into (ok, err)   (AcqRet)
                  ReleaseCtx: run the script (RelScript / RelFail), reply == 1 (RelRet)
                  SetExpire : atomic store.
     faults       a call may fail before the script runs (outage, breaker) or after it ran
                  (reply lost): reply "err".

   The refinement mapping (holder = the live key's id, expiresAt = its expiry) must make
   every step a step of RedisLock.tla (PROPERTY Refines), and the C19 invariants must hold
   on the implementation state. Variant switches in the historical / plausible mistakes, for
   which TLC produces the counterexample (documented in the *Bug*.cfg files).

   Assumption (also the driver's): SetExpire(i) does not run while a goroutine of instance i
   is between its load of seconds and its script (otherwise the lease is computed from either
   value, which the property does not speak about).                                        *)
EXTENDS Integers, FiniteSets, TLC

CONSTANTS
  Proc,      \* goroutines
  InstOf,    \* Proc -> instance number
  SecsVals,  \* values for SetExpire
  Variant    \* "ok" | "del-any" | "no-nx" | "err-grants" | "no-refresh"

None == -1
Inst == {InstOf[p] : p \in Proc}

VARIABLES
  now,
  kval, kexp,     \* the redis key
  secsF,          \* instance |-> rl.seconds
  pc,             \* goroutine |-> "idle" | "acq1" | "acq2" | "rel2"
  rd,             \* goroutine |-> seconds it loaded
  reply,          \* goroutine |-> reply of the store: "OK" | "nil" | "err" | "1" | "0" | "-"
  lease,          \* ghost, as in RedisLock: instance |-> end of the lease the store granted it
  granted         \* ghost: goroutine |-> its last lock script set the key to its id

ivars == <<now, kval, kexp, secsF, pc, rd, reply, lease, granted>>

Live    == kval # None /\ now < kexp
Holder  == IF Live THEN kval ELSE None
ExpAt   == IF Live THEN kexp ELSE 0

P == INSTANCE RedisLock WITH holder <- Holder, expiresAt <- ExpAt, secs <- secsF

IInit ==
  /\ now = 0 /\ kval = None /\ kexp = 0
  /\ secsF = [i \in Inst |-> 0]
  /\ pc = [p \in Proc |-> "idle"] /\ rd = [p \in Proc |-> 0]
  /\ reply = [p \in Proc |-> "-"]
  /\ lease = [i \in Inst |-> 0]
  /\ granted = [p \in Proc |-> FALSE]

\* ---- client: AcquireCtx
AcqLoad(p) ==
  /\ pc[p] = "idle"
  /\ pc' = [pc EXCEPT ![p] = "acq1"]
  /\ rd' = [rd EXCEPT ![p] = secsF[InstOf[p]]]
  /\ UNCHANGED <<now, kval, kexp, secsF, reply, lease, granted>>

\* the lock script, atomically, for goroutine p with px = its loaded seconds * 1000 + 500
LockScript(p, lost) ==
  LET i  == InstOf[p]
      px == rd[p] * 1000 + 500
      mine == Live /\ kval = i
      set  == kval' = i /\ kexp' = now + px
  IN /\ IF mine
          THEN IF Variant = "no-refresh" THEN UNCHANGED <<kval, kexp>> ELSE set
          ELSE IF ~Live \/ Variant = "no-nx" THEN set ELSE UNCHANGED <<kval, kexp>>
     /\ LET ok == mine \/ ~Live \/ Variant = "no-nx" IN
          /\ reply' = [reply EXCEPT ![p] = IF lost THEN "err" ELSE IF ok THEN "OK" ELSE "nil"]
          /\ granted' = [granted EXCEPT ![p] = ok /\ ~lost]
          /\ lease' = IF ok /\ ~lost THEN [lease EXCEPT ![i] = now + px]
                      ELSE IF lost THEN [lease EXCEPT ![i] = IF @ > now + px THEN now + px ELSE @]
                      ELSE lease

AcqScript(p) ==
  /\ pc[p] = "acq1"
  /\ \E lost \in BOOLEAN : LockScript(p, lost)
  /\ pc' = [pc EXCEPT ![p] = "acq2"]
  /\ UNCHANGED <<now, secsF, rd>>

\* the call fails before the script runs
AcqFail(p) ==
  /\ pc[p] = "acq1"
  /\ reply' = [reply EXCEPT ![p] = "err"]
  /\ granted' = [granted EXCEPT ![p] = FALSE]
  /\ lease' = LET i == InstOf[p] px == rd[p] * 1000 + 500 IN
                [lease EXCEPT ![i] = IF @ > now + px THEN now + px ELSE @]
  /\ pc' = [pc EXCEPT ![p] = "acq2"]
  /\ UNCHANGED <<now, kval, kexp, secsF, rd>>

\* redislock.go: red.Nil -> (false, nil); err -> (false, err); "OK" -> (true, nil)
AcqOk(p)  == reply[p] = "OK" \/ (Variant = "err-grants" /\ reply[p] = "err")
AcqErr(p) == reply[p] = "err"
\* the call returns (AcqOk, AcqErr); the goroutine's scratch is cleared
AcqRet(p) ==
  /\ pc[p] = "acq2"
  /\ pc' = [pc EXCEPT ![p] = "idle"]
  /\ rd' = [rd EXCEPT ![p] = 0]
  /\ reply' = [reply EXCEPT ![p] = "-"]
  /\ granted' = [granted EXCEPT ![p] = FALSE]
  /\ UNCHANGED <<now, kval, kexp, secsF, lease>>

\* ---- client: ReleaseCtx
DelScript(p, lost) ==
  LET i == InstOf[p]
      mine == Live /\ kval = i
      del == mine \/ (Variant = "del-any" /\ Live)
  IN /\ IF del THEN kval' = None /\ kexp' = 0 ELSE UNCHANGED <<kval, kexp>>
     /\ reply' = [reply EXCEPT ![p] = IF lost THEN "err" ELSE IF del THEN "1" ELSE "0"]
     /\ lease' = [lease EXCEPT ![i] = 0]

RelScript(p) ==
  /\ pc[p] = "idle"
  /\ \E lost \in BOOLEAN : DelScript(p, lost)
  /\ pc' = [pc EXCEPT ![p] = "rel2"]
  /\ UNCHANGED <<now, secsF, rd, granted>>

RelFail(p) ==
  /\ pc[p] = "idle"
  /\ reply' = [reply EXCEPT ![p] = "err"]
  /\ lease' = [lease EXCEPT ![InstOf[p]] = 0]
  /\ pc' = [pc EXCEPT ![p] = "rel2"]
  /\ UNCHANGED <<now, kval, kexp, secsF, rd, granted>>

\* returns (reply = 1, reply = err)
RelRet(p) ==
  /\ pc[p] = "rel2"
  /\ pc' = [pc EXCEPT ![p] = "idle"]
  /\ reply' = [reply EXCEPT ![p] = "-"]
  /\ UNCHANGED <<now, kval, kexp, secsF, rd, lease, granted>>

\* ---- SetExpire, clock
ISetExpire(i, s) ==
  /\ secsF[i] # s
  /\ \A p \in Proc : InstOf[p] = i => pc[p] # "acq1"
  /\ secsF' = [secsF EXCEPT ![i] = s]
  /\ UNCHANGED <<now, kval, kexp, pc, rd, reply, lease, granted>>

Rem == IF Live THEN kexp - now ELSE 0
Tick(d) ==
  /\ d >= 1
  /\ now' = now + d
  /\ UNCHANGED <<kval, kexp, secsF, pc, rd, reply, lease, granted>>

INext ==
  \/ \E p \in Proc : AcqLoad(p) \/ AcqScript(p) \/ AcqFail(p) \/ AcqRet(p)
                     \/ RelScript(p) \/ RelFail(p) \/ RelRet(p)
  \/ \E i \in Inst, s \in SecsVals : ISetExpire(i, s)
  \/ \E d \in {x \in {500} \cup (IF Live THEN {Rem - 1, Rem, Rem + 1} ELSE {}) : x >= 1} : Tick(d)

ISpec == IInit /\ [][INext]_ivars

\* ---- what must hold
Refines == P!LSpecAny(Inst)                  \* every step is a step of the abstract lock
BeliefSound     == P!BeliefSound
AtMostOneHolder == P!AtMostOneHolder
\* a call that returned true was granted by the store; an error is never a grant
GrantSound == \A p \in Proc : pc[p] = "acq2" /\ AcqOk(p) => granted[p] /\ ~AcqErr(p)

\* goroutine -> instance maps for the configs
InstOf3 == (1 :> 0 @@ 2 :> 1 @@ 3 :> 1)            \* two goroutines share instance 1
InstOf2 == (1 :> 0 @@ 2 :> 1)
InstOf3b == (1 :> 0 @@ 2 :> 1 @@ 3 :> 2)

\* the state relative to the clock (time only ever matters as a distance)
View == <<Holder, Rem, secsF, pc, rd, reply, granted,
          [i \in Inst |-> IF lease[i] > now THEN lease[i] - now ELSE 0]>>
=============================================================================
