SPECIFICATION MSpec
CONSTANTS
  Inst = {0, 1, 2}
  SecsVals = {0, 1, 2}
  MaxOps = 0
  Emit = FALSE
  ViewOps = 0
  TransCover = FALSE
  ErrEffects = TRUE
INVARIANTS TypeOK Canonical BeliefSound AtMostOneHolder
PROPERTIES PropOwnerOnlyRelease PropLateReleaseHarmless PropNoSteal PropLeaseLength
VIEW View
CHECK_DEADLOCK FALSE
