SPECIFICATION MSpec
CONSTANTS
  CBase = 3
  Inst = {0, 1}
  SecsVals = {0, 4}
  MaxOps = 0
  Emit = FALSE
  ViewOps = 0
  TransCover = FALSE
  ErrEffects = TRUE
INVARIANTS TypeOK WTypeOK WBelief
PROPERTIES IsWideStep
VIEW CView
CHECK_DEADLOCK FALSE
