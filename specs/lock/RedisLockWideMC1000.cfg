SPECIFICATION MSpec
CONSTANTS
  Base = 1000
  Inst = {0}
  SecsLow = {0, 1}
  SecsHigh = {}
  MaxOps = 0
  Emit = FALSE
  ViewOps = 0
  TransCover = FALSE
  ErrEffects = TRUE
  ViewClock = TRUE
  Faults = TRUE
INVARIANTS TypeOK Canonical BeliefSound AtMostOneHolder PBeliefSound PAtMostOneHolder PCanonical SubSound
PROPERTIES Refines PropLeaseLength
VIEW View
CHECK_DEADLOCK FALSE
