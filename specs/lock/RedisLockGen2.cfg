SPECIFICATION MSpec
CONSTANTS
  Inst = {0, 1, 2}
  SecsVals = {0, 1}
  MaxOps = 14
  Emit = TRUE
  ViewOps = 1
  TransCover = TRUE
  ErrEffects = FALSE
INVARIANTS PrintHist
VIEW View
CHECK_DEADLOCK FALSE
