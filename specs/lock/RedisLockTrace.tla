--------------------------- MODULE RedisLockTrace ---------------------------
(* Trace validation for C19: events recorded from real RedisLock instances on one key of a
   miniredis store (clock = FastForward) must be a behaviour of RedisLock.tla.

   Sequential events are one abstract step each:
     reset{n}  setExpire{i,s}  acquire{i,ok,err}  release{i,ok,err}  advance{d}
     fault{mode}  obs{held,h,ttl}
   The population of instances (LockPop.tla; driver zz_verif_c19_pop_test.go):
     census{n,ids,known}  n further RedisLock instances were created in the process and brought
                          ids identities no instance had before (known = FALSE: not readable)
     create{i,ord}        instance i of the trace is the ord-th instance created
     same{i,j,same}       white-box: do instances i and j carry the same identity
   Concurrent calls are logged as callStart{c,op,i,d} before the library (or FastForward)
   is invoked and callEnd{c,ok,err} after it returned; the atomic step of call c (the run
   of the Lua script inside the store, or the clock jump) is the silent action Lin(c),
   which TLC places anywhere between the two - it finds the linearisation, if there is one.
   The answer a call will log is known from the trace, so Lin(c) only tries that answer.

   obs is a white-box observation of the key between calls: whether it exists, which
   instance's id it carries (h = -2: the value is no instance's id - then only existence and
   ttl are compared) and its remaining ttl in ms.                                         *)
EXTENDS RedisLock, LockPop, TraceKit

VARIABLES
  l,      \* cursor into Trace
  pend,   \* call id |-> [op, i, d, done, ok, err] for calls that started and have not returned
  store   \* last fault mode set by the harness ("up", "err", "closed"); informative only:
          \* an error answer is legal at any time (breaker, dead pooled connection, ...)
tvars == <<now, holder, expiresAt, secs, lease, l, pend, store, made, idents, born>>

E == Trace[l]
IsEvent(e) == l <= Len(Trace) /\ E.e = e /\ l' = l + 1
Quiet == UNCHANGED <<pend, store, pvars>>

TReset ==
  /\ IsEvent("reset")
  /\ now' = 0 /\ holder' = None /\ expiresAt' = 0
  /\ secs' = [i \in 0..(E.n - 1) |-> 0]
  /\ lease' = [i \in 0..(E.n - 1) |-> 0]
  /\ pend' = <<>> /\ store' = "up"
  /\ PopReset(0..(E.n - 1))

TSetExpire == IsEvent("setExpire") /\ SetExpire(E.i, E.s) /\ Quiet
TAcquire   == IsEvent("acquire")   /\ Acquire(E.i, E.ok, E.err) /\ Quiet
TRelease   == IsEvent("release")   /\ Release(E.i, E.ok, E.err) /\ Quiet
TAdvance   == IsEvent("advance")   /\ Advance(E.d) /\ Quiet
TFault     == IsEvent("fault")     /\ store' = E.mode /\ UNCHANGED <<lvars, pend, pvars>>

TObs ==
  /\ IsEvent("obs")
  /\ E.held <=> (holder # None)
  /\ E.held => /\ E.h \in {holder, -2}
               /\ E.ttl = expiresAt - now
  /\ UNCHANGED lvars /\ Quiet

\* ---- the population of instances (LockPop.tla): creation census, which created instance a
\* numbered instance of the trace is, white-box comparison of two instances' identities
TCensus == IsEvent("census") /\ Census(E.n, E.ids, E.known) /\ UNCHANGED <<lvars, pend, store>>
TCreate == IsEvent("create") /\ Bind(E.i, E.ord) /\ UNCHANGED <<lvars, pend, store>>
TSame   == IsEvent("same")   /\ SameIdent(E.i, E.j, E.same) /\ UNCHANGED <<lvars, pend, store>>

\* ---- concurrent calls
Window == 32    \* a call returns within this many log lines of any point at which it is pending
EndIdx(c) ==
  LET hi == IF l + Window < Len(Trace) THEN l + Window ELSE Len(Trace)
      S  == {j \in l..hi : Trace[j].e = "callEnd" /\ Trace[j].c = c}
  IN IF S = {} THEN 0 ELSE CHOOSE j \in S : \A k \in S : j <= k

TCallStart ==
  /\ IsEvent("callStart")
  /\ E.c \notin DOMAIN pend
  /\ pend' = [c \in DOMAIN pend \cup {E.c} |->
                IF c = E.c THEN [op |-> E.op, i |-> E.i, d |-> E.d, done |-> FALSE, ok |-> FALSE, err |-> FALSE]
                ELSE pend[c]]
  /\ UNCHANGED <<lvars, store, pvars>>

Do(p, ok, err) ==
  CASE p.op = "acquire" -> Acquire(p.i, ok, err)
    [] p.op = "release" -> Release(p.i, ok, err)
    [] p.op = "advance" -> Advance(p.d) /\ ok /\ ~err

\* silent: the atomic step of a pending call; the answer is the one the call will log
Lin(c) ==
  /\ ~pend[c].done
  /\ LET j == EndIdx(c) IN
       \E ok, err \in BOOLEAN :
         /\ j # 0 => ok = Trace[j].ok /\ err = Trace[j].err
         /\ Do(pend[c], ok, err)
         /\ pend' = [pend EXCEPT ![c].done = TRUE, ![c].ok = ok, ![c].err = err]
  /\ UNCHANGED <<l, store, pvars>>

(* Search reduction (sound: it only removes redundant orders).
   1. Lin steps commute with callStart and fault events, which do not touch the lock: while
      the next logged event is one of those, it is simply consumed.
   2. A pending call that will answer (FALSE, no error) and whose refusal is justified by the
      current holder is a step that leaves holder/expiresAt alone: taking it first keeps
      every other continuation possible, so it is taken first (smallest call id), alone.   *)
Passive == l <= Len(Trace) /\ E.e \in {"callStart", "fault"}
RefusedNow(c) ==
  /\ ~pend[c].done /\ pend[c].op \in {"acquire", "release"}
  /\ LET j == EndIdx(c) IN j # 0 /\ ~Trace[j].ok /\ ~Trace[j].err
  /\ IF pend[c].op = "acquire" THEN holder \notin {None, pend[c].i} ELSE holder # pend[c].i
Eager == {c \in DOMAIN pend : RefusedNow(c)}

TCallEnd ==
  /\ IsEvent("callEnd")
  /\ E.c \in DOMAIN pend
  /\ pend[E.c].done /\ pend[E.c].ok = E.ok /\ pend[E.c].err = E.err
  /\ pend' = [c \in DOMAIN pend \ {E.c} |-> pend[c]]
  /\ UNCHANGED <<lvars, store, pvars>>

TInit == LInit({}) /\ l = 1 /\ pend = <<>> /\ store = "up" /\ PopInit({})
TNext ==
  IF Passive THEN TCallStart \/ TFault
  ELSE IF Eager # {} THEN Lin(CHOOSE c \in Eager : \A d \in Eager : c <= d)
  ELSE \/ TReset \/ TSetExpire \/ TAcquire \/ TRelease \/ TAdvance \/ TObs \/ TCallEnd
       \/ TCensus \/ TCreate \/ TSame
       \/ \E c \in DOMAIN pend : Lin(c)
TSpec == TInit /\ [][TNext]_tvars

HW == HighWater(l)
=============================================================================
