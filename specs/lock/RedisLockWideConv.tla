-------------------------- MODULE RedisLockWideConv --------------------------
(* The converse of RedisLockWideMC!Refines (C19): every step of the integer specification
   RedisLock.tla (driven by RedisLockMC.tla: all operation sequences of any length, state
   relative to the clock) is a step of RedisLockWide.tla when every time and every number
   of seconds n is read as the two-limb number <<n \div CBase, n % CBase>>. Together with
   Refines the limb specification accepts exactly the behaviours of RedisLock.tla - it is
   neither laxer (a violation would be missed) nor stricter (a false alarm).
   The VIEW adds the clock modulo CBase: carries depend on it.                          *)
EXTENDS RedisLockMC

CONSTANT CBase

ToW(n) == <<n \div CBase, n % CBase>>
W == INSTANCE RedisLockWide WITH Base <- CBase, now <- ToW(now), expiresAt <- ToW(expiresAt),
                                 secs <- [i \in DOMAIN secs |-> ToW(secs[i])],
                                 lease <- [i \in DOMAIN lease |-> ToW(lease[i])]
IsWideStep == W!LSpecAny(Inst)
WTypeOK    == W!TypeOK
WBelief    == W!BeliefSound /\ W!AtMostOneHolder /\ W!Canonical

CView == <<View, now % CBase>>
=============================================================================
