SPECIFICATION Spec
CONSTANTS
  MaxInst = 3
  Tokens = {0, 1, 2, 3}
  SecsVals = {0, 1}
  Gen = "wrap"
  Width = 2
PROPERTIES PopRefines
VIEW View
CHECK_DEADLOCK FALSE
