------------------------------- MODULE LockPop -------------------------------
(* Instance identity for property C19 ("for every number of lock instances on a key").

   RedisLock.tla tells instances apart by what they ARE: instance 3 is not instance 7. The
   store cannot see objects; it tells callers apart by the identity they present (the value
   written into the key - redislock.go: a random 16 character id drawn per instance). "At most
   one instance holds the key" and "only the holder can release" are statements about
   instances, so they presuppose

        IdentDistinct:  two different RedisLock instances never carry the same identity

   no matter how many instances the process has created in between. LockIdent.tla is the lock
   with the identities explicit (an `ident` map, a store that compares identities, an identity
   generator) and shows by model checking that the lock of RedisLock.tla is refined exactly as
   long as IdentDistinct holds, and that an identity that comes back (a wrapping counter, a
   constant) lets a second instance acquire and release a held key.

   This module is the part of that notion that trace validation carries. A population of
   2^17 .. 2^24 instances cannot be logged one identity at a time, so the trace keeps the two
   cardinalities of the ident map instead of the map,

        made   = Cardinality(DOMAIN ident)            instances created so far
        idents = Cardinality({ident[i] : i created})  identities among them

   and IdentDistinct <=> idents = made (CensusLemma, model-checked in LockIdent.tla over all
   ident maps). The creation event is the action Census(n, k, known): n further instances came
   into being and brought k identities nobody had before; the guard k = n IS IdentDistinct.
   `born` remembers which of the created instances the numbered instances of the trace are
   (creation ordinals), so that a replay file shows how far apart two contenders were made.  *)
EXTENDS Integers

VARIABLES
  made,     \* number of instances created since the trace began
  idents,   \* number of distinct identities among them
  born      \* instance of the trace |-> its creation ordinal (0: not told)

pvars == <<made, idents, born>>

\* @type: (Set(Int)) => Bool;
PopInit(I)  == made = 0 /\ idents = 0 /\ born = [i \in I |-> 0]
PopReset(I) == made' = 0 /\ idents' = 0 /\ born' = [i \in I |-> 0]

IdentDistinct == idents = made

(* n further instances were created; among all instances created so far there are now k more
   identities than before. known = FALSE: the identities could not be read (black-box run);
   the census then only counts instances.                                                   *)
Census(n, k, known) ==
  /\ n >= 0
  /\ known => k = n                 \* every new instance has an identity no other instance has
  /\ made' = made + n
  /\ idents' = idents + (IF known THEN k ELSE n)
  /\ UNCHANGED born

\* instance i of the trace is the ord-th instance created (each object is created once, and
\* two numbered instances are two objects)
Bind(i, ord) ==
  /\ i \in DOMAIN born /\ born[i] = 0 /\ ord >= 1
  /\ \A j \in DOMAIN born : born[j] # ord
  /\ born' = [born EXCEPT ![i] = ord]
  /\ UNCHANGED <<made, idents>>

\* the identities of instances i and j of the trace were read and compared
SameIdent(i, j, same) ==
  /\ i \in DOMAIN born /\ j \in DOMAIN born
  /\ same <=> (i = j)
  /\ UNCHANGED pvars
=============================================================================
