SPECIFICATION TSpec
CONSTRAINT HW
INVARIANTS Canonical BeliefSound AtMostOneHolder IdentDistinct
POSTCONDITION Accepted
CHECK_DEADLOCK FALSE
