SPECIFICATION TSpec
CONSTRAINT HW
INVARIANTS Canonical BeliefSound AtMostOneHolder
POSTCONDITION Accepted
CHECK_DEADLOCK FALSE
