SPECIFICATION TSpec
CONSTANTS
  Base = 1000000
CONSTRAINT HW
INVARIANTS Canonical BeliefSound AtMostOneHolder IdentDistinct
POSTCONDITION Accepted
CHECK_DEADLOCK FALSE
