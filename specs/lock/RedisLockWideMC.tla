--------------------------- MODULE RedisLockWideMC ---------------------------
(* Model checking of RedisLockWide.tla and generation of wide-range histories (C19).

   Model checking (Emit = FALSE, small Base such as 7 or 1000, SecsVals with and without a
   high limb): every sequence of Acquire / Release / SetExpire / clock advance / outage of
   any length, the state viewed relative to the clock PLUS the low limb of the clock
   (ViewClock = TRUE: whether an addition carries or a subtraction borrows depends on it),
   so the quotient is finite and exhaustive. Checked: the invariants, and PROPERTY Refines -
   under value(<<hi, lo>>) = hi * Base + lo every step is a step of RedisLock.tla.

   Generation (Emit = TRUE, Base = 10^6, SecsVals = values at the width boundaries of the
   lease arithmetic - 2^31 / 2^32 milliseconds, 2^31 / 2^32 seconds ...): one shortest
   history per distinct transition (state, operation, answer), as in RedisLockMC.tla; here
   the view is computed with limb subtraction only, no integer ever leaves 32 bits.      *)
EXTENDS RedisLockWide, Sequences, TLC, Json

CONSTANTS
  Inst,        \* instance numbers
  SecsLow,     \* seconds SetExpire may configure: naturals below 2^31 as they are ...
  SecsHigh,    \* ... and k standing for 2^31 + k seconds (a cfg file cannot hold a larger number)
  MaxOps,      \* generation: longest history
  Emit,        \* TRUE: print histories
  ViewOps,     \* generation: trailing operations that are part of the VIEW
  TransCover,  \* generation: the state an operation started from is part of the VIEW
  ErrEffects,  \* TRUE: a failed call may still have run its script
  ViewClock,   \* TRUE: the low limb of the clock is part of the VIEW (model checking)
  Faults       \* FALSE: no store outages (generation: outages are covered at ordinary lease lengths)

VARIABLES store, hist, prev

mvars == <<now, holder, expiresAt, secs, lease, store, hist, prev>>

MInit == LInit(Inst) /\ store = "up" /\ hist = <<>> /\ prev = 0

W2p31    == WAdd(WOf(2147483647), WOf(1))
SecsVals == {WOf(n) : n \in SecsLow} \cup {WAdd(W2p31, WOf(k)) : k \in SecsHigh}

W1  == WOf(1)
Rem == IF holder = None THEN WZero ELSE WSub(expiresAt, now)
Bel(i) == IF WLt(now, lease[i]) THEN WSub(lease[i], now) ELSE WZero
AdvChoices ==
  {d \in {WOf(500)} \cup (IF holder = None THEN {} ELSE {WSub(Rem, W1), Rem, WAdd(Rem, W1)})
         \cup {Bel(i) : i \in Inst} : d # WZero}

Log(r) == hist' = IF Emit THEN Append(hist, r) ELSE hist
Op(op, i, v) == [op |-> op, i |-> i, v |-> v, r |-> FALSE]
NoEffect == holder' = holder /\ expiresAt' = expiresAt

MAcquire(i) ==
  \E ok \in BOOLEAN :
    /\ IF store = "up" THEN Acquire(i, ok, FALSE)
                       ELSE ok = FALSE /\ Acquire(i, FALSE, TRUE) /\ (ErrEffects \/ NoEffect)
    /\ Log([op |-> "acquire", i |-> i, v |-> WZero, r |-> ok]) /\ UNCHANGED store
MRelease(i) ==
  \E ok \in BOOLEAN :
    /\ IF store = "up" THEN Release(i, ok, FALSE)
                       ELSE ok = FALSE /\ Release(i, FALSE, TRUE) /\ (ErrEffects \/ NoEffect)
    /\ Log([op |-> "release", i |-> i, v |-> WZero, r |-> ok]) /\ UNCHANGED store
MSetExpire(i, s) == SetExpire(i, s) /\ secs[i] # s /\ Log(Op("setExpire", i, s)) /\ UNCHANGED store
MAdvance(d) == Advance(d) /\ Log(Op("advance", 0, d)) /\ UNCHANGED store
MFault ==
  /\ store' = IF store = "up" THEN "down" ELSE "up"
  /\ Log(Op("fault", 0, IF store = "up" THEN WOf(1) ELSE WZero))
  /\ UNCHANGED lvars

StateView == <<holder, Rem, secs, [i \in Inst |-> Bel(i)], store, IF ViewClock THEN now[2] ELSE 0>>

MNext ==
  /\ Emit => Len(hist) < MaxOps
  /\ prev' = IF TransCover THEN StateView ELSE 0
  /\ \/ \E i \in Inst : MAcquire(i) \/ MRelease(i) \/ \E s \in SecsVals : MSetExpire(i, s)
     \/ \E d \in AdvChoices : MAdvance(d)
     \/ (Faults /\ MFault)

MSpec == MInit /\ [][MNext]_mvars

LastN(h, n) == IF Len(h) <= n THEN h ELSE SubSeq(h, Len(h) - n + 1, Len(h))
View == <<StateView, LastN(hist, ViewOps), prev>>

\* ---- this module is RedisLock.tla written in limbs (small bases only: Val must fit an integer)
Val(a) == a[1] * Base + a[2]
P == INSTANCE RedisLock WITH now <- Val(now), expiresAt <- Val(expiresAt),
                             secs <- [i \in DOMAIN secs |-> Val(secs[i])],
                             lease <- [i \in DOMAIN lease |-> Val(lease[i])]
Refines == P!LSpecAny(Inst)
\* limb arithmetic against integer arithmetic on numbers around the carry points (evaluated by
\* TLC before it starts; at Base = 10^6 only the small numbers are tried)
ToW(n)   == <<n \div Base, n % Base>>
ArithSet == 0..(IF Base <= 16 THEN 4 * Base ELSE 40)
            \cup (IF Base <= 10000 THEN {k * Base + j : k \in 1..2, j \in {-2, -1, 0, 1, 2}} ELSE {})
ASSUME ArithLemmas ==
  \A a, b \in ArithSet :
    /\ IsWide(ToW(a)) /\ WOf(a) = ToW(a)
    /\ WAdd(ToW(a), ToW(b)) = ToW(a + b)
    /\ WLt(ToW(a), ToW(b)) = (a < b) /\ WLe(ToW(a), ToW(b)) = (a <= b)
    /\ a >= b => WSub(ToW(a), ToW(b)) = ToW(a - b)
    /\ WLeaseMs(ToW(a)) = ToW(a * 1000 + 500)
\* ... and on the numbers the model actually meets
SubSound == /\ Val(Rem) = (IF holder = None THEN 0 ELSE Val(expiresAt) - Val(now))
            /\ \A i \in Inst : Val(Bel(i)) = (IF Val(lease[i]) > Val(now) THEN Val(lease[i]) - Val(now) ELSE 0)

\* the invariants of the integer specification, read through the mapping
PBeliefSound     == P!BeliefSound
PAtMostOneHolder == P!AtMostOneHolder
PCanonical       == P!Canonical

PropLeaseLength == [][LeaseLength]_lvars

PrintHist == (Emit /\ Len(hist) > 0) => PrintT("TRACE " \o ToJson(hist))
=============================================================================
