#!/bin/sh
# thorough tier of every property, 4 lanes (for background sweeps: vp run -- tools/allthorough.sh); evidence and
# replays go to a scratch directory so that the committed quick-tier evidence is not overwritten
cd "$(dirname "$0")/.."
export VERIF_EVIDENCE_DIR=${VERIF_EVIDENCE_DIR:-/tmp/thorough-ev} VERIF_REPLAYS_DIR=${VERIF_REPLAYS_DIR:-/tmp/thorough-ev}
mkdir -p "$VERIF_EVIDENCE_DIR"
lane() { for p in "$@"; do ./check $p --tier thorough > "$VERIF_EVIDENCE_DIR/$p.log" 2>&1; echo "$p rc=$? $(tail -1 "$VERIF_EVIDENCE_DIR/$p.log")"; done; }
lane C12 C20 C03 C19 C01 &
lane C14 C04 C08 C05 C07 &
lane C16 C09 C13 C06 C10 &
lane C02 C11 C17 C18 C15 &
wait
echo ALLDONE
