#!/usr/bin/env python3
"""benignall.py <PID> <outdir> [tier]: property-PRESERVING changes written by an independent engineer
(/outdir/<k>/patch.diff + meta.json): confirm each applies and builds, run the check against it (seedrun.sh),
store under /verif/benign/<PID>-<n>/ with the result.  Expected result: exit 0 (silent).  Exit 1 = false alarm,
exit 2 = the check broke on a harmless change (brittle driver) - both are defects of the CHECK."""
import glob, json, os, shutil, subprocess, sys
pid, out = sys.argv[1], sys.argv[2]
tiers = sys.argv[3].split(",") if len(sys.argv) > 3 else ["quick"]
V = "/verif"
os.makedirs(V + "/benign", exist_ok=True)
existing = [int(os.path.basename(d).split("-")[1]) for d in glob.glob(V + "/benign/%s-*" % pid)]
n = max(existing + [0])
head = subprocess.run("git -C /repo rev-parse --short HEAD", shell=True, stdout=subprocess.PIPE, text=True).stdout.strip()
env = dict(os.environ, GOFLAGS="-mod=mod", GOPROXY="off", GOSUMDB="off", GOTOOLCHAIN="local")
for k in sorted(os.listdir(out), key=lambda x: int(x) if x.isdigit() else 0):
    d = os.path.join(out, k)
    if not os.path.exists(os.path.join(d, "patch.diff")):
        continue
    meta = json.load(open(os.path.join(d, "meta.json")))
    print("==== %s %s" % (pid, d), flush=True)
    res = {}
    for tier in tiers:
        r = subprocess.run([V + "/tools/seedrun.sh", pid, os.path.join(d, "patch.diff"), tier], stdout=subprocess.PIPE,
                           stderr=subprocess.STDOUT, text=True, env=dict(env, SEEDRUN_TAIL="20"))
        res[tier] = {"rc": r.returncode, "silent": r.returncode == 0, "output": r.stdout[-2500:] if r.returncode else ""}
        print(" %s rc=%d" % (tier, r.returncode), flush=True)
        if r.returncode:
            print("   " + "\n   ".join(r.stdout.splitlines()[-25:]), flush=True)
    n += 1
    dst = V + "/benign/%s-%d" % (pid, n)
    os.makedirs(dst, exist_ok=True)
    shutil.copy(os.path.join(d, "patch.diff"), dst + "/patch.diff")
    meta.update({"base_commit": head, "check_result": res,
                 "ran": "tools/seedrun.sh %s patch.diff <tier> (VERIF_REPO = scratch worktree with the patch applied); expected exit 0" % pid})
    json.dump(meta, open(dst + "/meta.json", "w"), indent=1)
    print(" stored %s" % dst, flush=True)
