#!/usr/bin/env python3
"""seedall.py <PID> <outdir> [start index]: for each /outdir/<k>: confirm (seedverify), run quick (then thorough if missed)
against it, store under /verif/seeded/<PID>-<n>/ with meta.json."""
import json, os, shutil, subprocess, sys, glob
pid, out = sys.argv[1], sys.argv[2]
V = "/verif"
existing = [int(os.path.basename(d).split("-")[1]) for d in glob.glob(V + "/seeded/%s-*" % pid)]
n = max(existing + [0])
head = subprocess.run("git -C /repo rev-parse --short HEAD", shell=True, stdout=subprocess.PIPE, text=True).stdout.strip()
for k in sorted(os.listdir(out), key=lambda x: int(x) if x.isdigit() else 0):
    d = os.path.join(out, k)
    if not os.path.exists(os.path.join(d, "patch.diff")):
        continue
    print("==== %s %s" % (pid, d), flush=True)
    v = subprocess.run([sys.executable, V + "/tools/seedverify.py", d], stdout=subprocess.PIPE, stderr=subprocess.STDOUT, text=True)
    vout = v.stdout
    try:
        conf = json.loads(vout[vout.index("{\n"):])
    except Exception:
        conf = {"raw": vout[-2000:]}
    print(" verify rc=%d %s" % (v.returncode, {k2: v2 for k2, v2 in conf.items() if k2 != "demo_fail_excerpt"}), flush=True)
    det = {}
    for tier in ("quick", "thorough"):
        r = subprocess.run([V + "/tools/seedrun.sh", pid, os.path.join(d, "patch.diff"), tier], stdout=subprocess.PIPE, stderr=subprocess.STDOUT, text=True)
        det[tier] = {"rc": r.returncode, "detected": r.returncode == 1, "output": r.stdout[-1500:]}
        print(" %s rc=%d" % (tier, r.returncode), flush=True)
        print("   " + "\n   ".join(r.stdout.splitlines()[:4]), flush=True)
        if r.returncode == 1:
            break
    n += 1
    dst = V + "/seeded/%s-%d" % (pid, n)
    os.makedirs(dst, exist_ok=True)
    shutil.copy(os.path.join(d, "patch.diff"), dst)
    shutil.copy(os.path.join(d, "demo_test.go"), dst)
    m = json.load(open(os.path.join(d, "meta.json")))
    m["breaks_property"] = pid
    m["base_commit"] = head
    m["confirmed"] = conf
    m["confirmed_how"] = "tools/seedverify.py: scratch worktree of /repo HEAD; demo passes without patch, patch applies and builds, listed packages' existing tests pass, demo fails with patch"
    m["ran"] = "tools/seedrun.sh %s patch.diff <tier> (VERIF_REPO=scratch worktree with the patch applied)" % pid
    m["detected_by"] = det
    json.dump(m, open(os.path.join(dst, "meta.json"), "w"), indent=1)
