#!/usr/bin/env python3
"""Prints the markdown table 'which check catches which seeded change' from seeded/*/meta.json."""
import glob, json, os, re
V = os.path.dirname(os.path.dirname(os.path.abspath(__file__)))
def key(d):
    m = re.match(r"(C\d+)-(\d+)", os.path.basename(d)); return (m.group(1), int(m.group(2)))
print("| seeded change | what it does (short) | needs | quick | thorough |")
print("|---|---|---|---|---|")
for d in sorted(glob.glob(V + "/seeded/C*-*"), key=key):
    m = json.load(open(d + "/meta.json"))
    det = m.get("detected_by", {})
    def st(t):
        if t in det and isinstance(det[t], dict):
            v = det[t]; return "detected" if v.get("detected") or v.get("rc") == 1 else ("missed" if v.get("rc") == 0 else "rc=%s" % v.get("rc"))
        if t == "quick" and det.get("quick") is True: return "detected"
        return "–"
    q, th = st("quick"), st("thorough")
    if m.get("status", "").startswith("obsolete"): q = th = m.get("status_note", "n/a (no longer breaks the property on HEAD, see meta.json)")
    if q == "detected": th = "(detected by quick)"
    s = re.sub(r"\s+", " ", m.get("summary", ""))[:170].replace("|", "/")
    n = re.sub(r"\s+", " ", m.get("needs", ""))[:130].replace("|", "/")
    print("| %s | %s | %s | %s | %s |" % (os.path.basename(d), s, n, q, th))
