#!/usr/bin/env python3
"""Regenerates the marked tables of DESIGN.md Part F."""
import json, os, re, subprocess
V = os.path.dirname(os.path.dirname(os.path.abspath(__file__)))
s = open(V + "/DESIGN.md").read()
def put(tag, body):
    global s
    s = re.sub(r"(<!-- BEGIN:%s -->\n).*?(<!-- END:%s -->)" % (tag, tag), lambda m: m.group(1) + body + "\n" + m.group(2), s, flags=re.S)
f = json.load(open(V + "/known_findings.json"))["findings"]
rows = ["| property | status | commit / deviation | what |", "|---|---|---|---|"]
for x in f:
    what = re.sub(r"^fixed: property=\S+ \S+ ", "", x["what"]).replace("|", "/")
    rows.append("| %s | %s | %s | %s |" % (x["property"], x["status"], x.get("commit") or x.get("deviation"), what))
put("FINDINGS", "\n".join(rows))
put("SEEDED", subprocess.run(["python3", V + "/tools/seedtable.py"], stdout=subprocess.PIPE, text=True).stdout.strip())
p = V + "/tools/strengthen_log.md"
put("STRENGTHEN", open(p).read().strip() if os.path.exists(p) else "(none yet)")
import glob
rows = ["| extension | host | spec family | subsystem and what the specification says | tier |", "|---|---|---|---|---|"]
tracked = set(subprocess.run(["git", "-C", V, "ls-files", "props"], stdout=subprocess.PIPE, text=True).stdout.split())
for f in sorted(glob.glob(V + "/props/ext_*.py")):
    if os.path.relpath(f, V) not in tracked:
        continue          # work in progress: only committed extension modules are listed
    src = open(f).read()
    g = {}
    try:
        import ast
        for node in ast.parse(src).body:
            if isinstance(node, ast.Assign) and len(node.targets) == 1 and isinstance(node.targets[0], ast.Name) \
                    and node.targets[0].id in ("HOST", "WHAT", "QUICK", "FAM", "DISABLED"):
                g[node.targets[0].id] = ast.literal_eval(node.value)
    except Exception as ex:
        g["WHAT"] = "(unreadable: %s)" % ex
    if g.get("DISABLED"):
        continue
    rows.append("| %s | %s | specs/%s | %s | %s |" % (os.path.basename(f)[4:-3], g.get("HOST"), g.get("FAM", "?"),
                str(g.get("WHAT", "")).replace("|", "/"), "quick+thorough" if g.get("QUICK") else "thorough"))
put("EXTENSIONS", "\n".join(rows))
rows = ["| benign change | what it does (short) | quick |", "|---|---|---|"]
def bkey(d):
    m = re.match(r"(C\d+)-(\d+)", os.path.basename(d)); return (m.group(1), int(m.group(2)))
for d in sorted(glob.glob(V + "/benign/C*-*"), key=bkey):
    m = json.load(open(d + "/meta.json"))
    r = m.get("check_result", {}).get("quick", {})
    before = m.get("check_result_before", {}).get("quick", {})
    st = "silent" if r.get("rc") == 0 else ("false alarm (rc=1)" if r.get("rc") == 1 else "check broke (rc=%s)" % r.get("rc"))
    if before and before.get("rc") not in (None, 0):
        st += " (was: %s; check repaired)" % ("false alarm" if before.get("rc") == 1 else "check broke")
    rows.append("| %s | %s | %s |" % (os.path.basename(d), re.sub(r"\s+", " ", m.get("summary", ""))[:260].replace("|", "/"), st))
put("BENIGN", "\n".join(rows))
open(V + "/DESIGN.md", "w").write(s)
