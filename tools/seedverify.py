#!/usr/bin/env python3
"""seedverify.py <dir with patch.diff demo_test.go meta.json> : confirm a seeded change in a scratch worktree:
demo passes on the original tree, patch applies, touched packages' existing tests pass, demo fails with the patch."""
import json, os, re, shlex, subprocess, sys, tempfile, shutil
d = os.path.abspath(sys.argv[1])
meta = json.load(open(os.path.join(d, "meta.json")))
cmd = meta["demo_cmd"]
cmd = re.sub(r"^\s*(cp|mv)\s+\S+\s+\S+\s*(&&|;)\s*", "", cmd)   # the demo file is copied in by this script
toks = shlex.split(cmd)
pkg = [t for t in toks if t.startswith("./")][-1].rstrip("/")
sub = meta.get("demo_module_dir", "")  # e.g. tools/goctl
env = dict(os.environ, GOFLAGS="-mod=mod", GOPROXY="off", GOSUMDB="off", GOTOOLCHAIN="local")
wt = tempfile.mkdtemp(prefix="seedverify-", dir="/tmp"); os.rmdir(wt)
def sh(c, cwd, timeout=1500):
    p = subprocess.run(c, shell=True, cwd=cwd, env=env, stdout=subprocess.PIPE, stderr=subprocess.STDOUT, text=True, timeout=timeout)
    return p.returncode, p.stdout
rc, out = sh("git -C /repo worktree add --detach %s HEAD" % wt, "/")
res = {}
try:
    root = os.path.join(wt, sub)
    if "{MODFILE}" in cmd:
        # separate module (tools/goctl) that only builds offline with an alternate modfile
        import re
        aux = wt + ".aux"; os.makedirs(aux, exist_ok=True)
        mod = open(os.path.join(root, "go.mod")).read()
        mod = re.sub(r"(?m)^replace\s+github\.com/zeromicro/go-zero\s.*$", "", mod)
        S = "/verif/harness/goctl/standins"
        mod += "\nreplace github.com/zeromicro/go-zero => %s\nreplace github.com/gookit/color => %s/color\nreplace github.com/fatih/structtag => %s/structtag\n" % (wt, S, S)
        open(aux + "/alt.mod", "w").write(mod)
        open(aux + "/alt.sum", "w").write(open(os.path.join(root, "go.sum")).read())
        cmd = cmd.replace("{MODFILE}", aux + "/alt.mod")
        MODFLAG = "-modfile=%s/alt.mod " % aux
    else:
        MODFLAG = ""
    demo_dst = os.path.join(root, pkg[2:], "zz_demo_seed_test.go")
    shutil.copy(os.path.join(d, "demo_test.go"), demo_dst)
    rc, out = sh(cmd, root); res["demo_without_patch_passes"] = (rc == 0)
    if rc != 0: print(out[-3000:])
    os.unlink(demo_dst)
    rc, out = sh("git apply %s" % os.path.join(d, "patch.diff"), wt); res["patch_applies"] = (rc == 0)
    if rc != 0: print(out)
    rc, out = sh("go build %s./..." % MODFLAG if not MODFLAG else "go build %s./pkg/parser/api/..." % MODFLAG, root); res["builds"] = (rc == 0)
    pk = [re.match(r"\./[\w./-]+", x).group(0) for x in (meta.get("packages_tested") or []) if re.match(r"\./[\w./-]+", x)] or [pkg + "/..."]
    rc, out = sh("go test %s-count=1 %s" % (MODFLAG, " ".join(pk)), root); res["existing_tests_pass"] = (rc == 0)
    if rc != 0: print(out[-3000:])
    shutil.copy(os.path.join(d, "demo_test.go"), demo_dst)
    rc, out = sh(cmd, root); res["demo_with_patch_fails"] = (rc != 0)
    res["demo_fail_excerpt"] = "\n".join([l for l in out.splitlines() if "FAIL" in l or "Error" in l or "panic" in l][:6])
finally:
    sh("git -C /repo worktree remove --force %s" % wt, "/"); shutil.rmtree(wt, ignore_errors=True); shutil.rmtree(wt + ".aux", ignore_errors=True)
print(json.dumps(res, indent=1))
ok = all(res.get(k) for k in ["demo_without_patch_passes", "patch_applies", "builds", "existing_tests_pass", "demo_with_patch_fails"])
sys.exit(0 if ok else 1)
