#!/usr/bin/env python3
"""seedverify.py <dir with patch.diff demo_test.go meta.json> : confirm a seeded change in a scratch worktree:
demo passes on the original tree, patch applies, touched packages' existing tests pass, demo fails with the patch."""
import json, os, re, shlex, subprocess, sys, tempfile, shutil
d = os.path.abspath(sys.argv[1])
meta = json.load(open(os.path.join(d, "meta.json")))
cmd = meta["demo_cmd"]
toks = shlex.split(cmd)
pkg = [t for t in toks if t.startswith("./")][-1].rstrip("/")
sub = meta.get("demo_module_dir", "")  # e.g. tools/goctl
env = dict(os.environ, GOFLAGS="-mod=mod", GOPROXY="off", GOSUMDB="off", GOTOOLCHAIN="local")
wt = tempfile.mkdtemp(prefix="seedverify-", dir="/tmp"); os.rmdir(wt)
def sh(c, cwd, timeout=1500):
    p = subprocess.run(c, shell=True, cwd=cwd, env=env, stdout=subprocess.PIPE, stderr=subprocess.STDOUT, text=True, timeout=timeout)
    return p.returncode, p.stdout
rc, out = sh("git -C /repo worktree add --detach %s HEAD" % wt, "/")
res = {}
try:
    root = os.path.join(wt, sub)
    demo_dst = os.path.join(root, pkg[2:], "zz_demo_seed_test.go")
    shutil.copy(os.path.join(d, "demo_test.go"), demo_dst)
    rc, out = sh(cmd, root); res["demo_without_patch_passes"] = (rc == 0)
    if rc != 0: print(out[-3000:])
    os.unlink(demo_dst)
    rc, out = sh("git apply %s" % os.path.join(d, "patch.diff"), wt); res["patch_applies"] = (rc == 0)
    if rc != 0: print(out)
    rc, out = sh("go build ./...", root); res["builds"] = (rc == 0)
    pk = meta.get("packages_tested") or [pkg + "/..."]
    rc, out = sh("go test -count=1 %s" % " ".join(pk), root); res["existing_tests_pass"] = (rc == 0)
    if rc != 0: print(out[-3000:])
    shutil.copy(os.path.join(d, "demo_test.go"), demo_dst)
    rc, out = sh(cmd, root); res["demo_with_patch_fails"] = (rc != 0)
    res["demo_fail_excerpt"] = "\n".join([l for l in out.splitlines() if "FAIL" in l or "Error" in l or "panic" in l][:6])
finally:
    sh("git -C /repo worktree remove --force %s" % wt, "/"); shutil.rmtree(wt, ignore_errors=True)
print(json.dumps(res, indent=1))
ok = all(res.get(k) for k in ["demo_without_patch_passes", "patch_applies", "builds", "existing_tests_pass", "demo_with_patch_fails"])
sys.exit(0 if ok else 1)
