#!/usr/bin/env python3
"""Regenerates /verif/MANIFEST.json from the per-property modules in props/ (each declares
LEVEL, LEVEL_TEXT, LEVEL_NOTE, TECHNIQUE, DESIGN_REF) and tools/not_applicable.json."""
import importlib
import json
import os
import subprocess
import sys

V = os.path.dirname(os.path.dirname(os.path.abspath(__file__)))
sys.path.insert(0, V)
sys.path.insert(0, os.path.join(V, "lib"))

ids = [json.loads(l)["id"] for l in open(os.path.join(V, "properties.jsonl"))]
# only checks the integrator has reviewed, run on the unchanged tree and committed are claimed
integrated = set(json.load(open(os.path.join(V, "tools", "integrated.json"))))
checks = []
claimed = set()
for pid in ids:
    p = os.path.join(V, "props", pid.lower() + ".py")
    if not os.path.exists(p) or pid not in integrated:
        continue
    m = importlib.import_module("props." + pid.lower())
    if getattr(m, "DISABLED", False):
        continue
    claimed.add(pid)
    checks.append({
        "property_id": pid,
        "quick_cmd": "./check %s --tier quick" % pid,
        "thorough_cmd": "./check %s --tier thorough" % pid,
        "evidence_file": "/verif/evidence/%s.json" % pid,
        "replay_cmd_template": "./check %s --replay {path}" % pid,
        "engine": "tlc-trace-validation",
        "level_claimed": {"category": m.LEVEL, "text": m.LEVEL_TEXT, "design_ref": m.DESIGN_REF},
        "level_note": m.LEVEL_NOTE,
        "technique": m.TECHNIQUE,
    })
na_src = json.load(open(os.path.join(V, "tools", "not_applicable.json")))
na = [{"property_id": pid, "reason": na_src.get(pid, "check not built yet in this round (planned, see DESIGN.md Part B)")}
      for pid in ids if pid not in claimed]
hooks = subprocess.run(["git", "-C", "/repo", "log", "--format=%H %s", "--grep=^verif hook"],
                       stdout=subprocess.PIPE, text=True).stdout.strip().splitlines()
man = {
    "version": 1,
    "setup_cmd": "./setup.sh",
    "hooks": {
        "guard": "verif (Go build tag)",
        "enable": "go test -tags verif -overlay <drivers from /verif/harness/overlay> (see lib/vlib.py go_driver)",
        "baseline_off_cmd": "cd /repo && GOFLAGS=-mod=mod go test -json -vet=off -count=1 -timeout 25m ./...",
        "source_commits": [h.split()[0] for h in hooks],
        "add_only": True,
    },
    "engines": [{
        "name": "tlc-trace-validation",
        "path": "/verif/check",
        "serves_properties": sorted(claimed),
        "kind_free_text": "explicit TLA+ specifications (specs/), TLC exhaustive model checking of the design, "
                          "TLC-generated behaviours replayed into the real Go code through overlay drivers, and "
                          "TLC validation of ndjson traces recorded from the real code (the only source of VIOLATION)",
    }],
    "checks": checks,
    "not_applicable": na,
    "notes": "All verdicts come from TLC rejecting a trace recorded from the real code (see DESIGN.md A.6). "
             "known_findings.json lists open findings (reported as KNOWN-FINDING) and fixed ones (suppress nothing).",
}
with open(os.path.join(V, "MANIFEST.json"), "w") as fh:
    json.dump(man, fh, indent=1)
    fh.write("\n")
print("claimed:", sorted(claimed))
print("not applicable / not yet built:", [x["property_id"] for x in na])
