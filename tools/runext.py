#!/usr/bin/env python3
"""runext.py <extension name> : run ONE extension specification (props/ext_<name>.py) alone, the way the runner does
after the host property's check (advisory: EXT-MISMATCH lines, never a verdict).  No evidence file is written.
Exit 0 = no mismatch, 3 = at least one EXT-MISMATCH, 2 = broken."""
import importlib, os, sys, time, traceback
V = os.path.dirname(os.path.dirname(os.path.abspath(__file__)))
sys.path.insert(0, V); sys.path.insert(0, os.path.join(V, "lib"))
import vlib
name = sys.argv[1]
ext = importlib.import_module("props.ext_" + name)
run = vlib.Run(ext.HOST, os.environ.get("VERIF_TIER", "thorough"), int(os.environ.get("VERIF_SEED", "1") or "1"))
run.advisory_default = True
t = time.time(); rc = 0
try:
    ext.check(run)
    mism = run.extra.get("extension_mismatches", [])
    rc = 3 if (mism or run.violations) else 0
except Exception:
    traceback.print_exc(); rc = 2
finally:
    if "--keep" in sys.argv: print("scratch kept:", run.scratch)
    else: run.cleanup()
vlib.log("== ext %s done rc=%d wall=%.1fs traces=%d events=%d mc=%d" % (name, rc, time.time() - t, run.traces, run.events, len(run.mc)))
sys.exit(rc)
