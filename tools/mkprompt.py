#!/usr/bin/env python3
"""mkprompt.py mut <PID> <N> <TAG>  |  benign <PID> <N> <TAG>  |  strengthen <PID> <FAM> <miss,miss,...>  |  growth <NAME> <HOST> <FAM> <WHAT> <CODE>
Fills the prompt templates under tools/ and prints the result (mutator prompts contain nothing from /verif but
the property text and one-line summaries of changes already collected, so that new ones differ)."""
import glob, json, os, sys
V = os.path.dirname(os.path.dirname(os.path.abspath(__file__)))
def prop(pid):
    for l in open(V + "/properties.jsonl"):
        p = json.loads(l)
        if p["id"] == pid:
            return p
kind = sys.argv[1]
if kind == "mut":
    pid, n, tag = sys.argv[2], sys.argv[3], sys.argv[4]
    p = prop(pid)
    text = json.dumps({k: p[k] for k in ("id", "title", "statement", "quantifier", "why_tests_cant", "anchors")}, indent=1)
    t = open(V + "/tools/mutator_prompt.txt").read()
    t = t.replace("{WT}", "/tmp/%s-wt" % tag).replace("{TAG}", tag).replace("{PROPERTY}", text).replace("{N}", n).replace("{PID}", pid)
    taken = []
    for d in sorted(glob.glob(V + "/seeded/%s-*" % pid)):
        try:
            taken.append("- " + json.load(open(d + "/meta.json"))["summary"][:260])
        except Exception:
            pass
    if taken:
        t += "\n\nChanges other engineers already delivered for this property (do something DIFFERENT: other files, other clauses of the statement, other mechanisms):\n" + "\n".join(taken)
    print(t)
elif kind == "benign":
    pid, n, tag = sys.argv[2], sys.argv[3], sys.argv[4]
    p = prop(pid)
    text = json.dumps({k: p[k] for k in ("id", "title", "statement", "quantifier", "why_tests_cant", "anchors")}, indent=1)
    t = open(V + "/tools/benign_prompt.txt").read()
    print(t.replace("{WT}", "/tmp/%s-wt" % tag).replace("{TAG}", tag).replace("{PROPERTY}", text).replace("{N}", n).replace("{PID}", pid))
elif kind == "robustify":
    pid, fam, fails = sys.argv[2], sys.argv[3], sys.argv[4].split(",")
    t = open(V + "/tools/robustify_prompt.txt").read()
    fs = []
    for m in fails:
        meta = json.load(open(V + "/benign/%s/meta.json" % m))
        res = meta.get("check_result", {}).get("quick", {})
        fs.append("- %s: %s\n  (quick rc=%s)\n  %s" % (m, meta["summary"][:600], res.get("rc"), "\n  ".join([l for l in res.get("output", "").splitlines() if ".go:" in l or "undefined" in l or "FAIL" in l or "VIOLATION" in l][:8])))
    print(t.replace("{PID}", pid).replace("{pid}", pid.lower()).replace("{FAM}", fam).replace("{FAILS}", "\n".join(fs)))
elif kind == "strengthen":
    pid, fam, misses = sys.argv[2], sys.argv[3], sys.argv[4].split(",")
    t = open(V + "/tools/strengthen_prompt.txt").read()
    ms = []
    for m in misses:
        meta = json.load(open(V + "/seeded/%s/meta.json" % m))
        det = meta.get("detected_by", {})
        ms.append("- %s: %s\n  needs: %s\n  (quick detected: %s, thorough detected: %s)" % (
            m, meta["summary"], meta["needs"], det.get("quick", {}).get("detected"), det.get("thorough", {}).get("detected", "n/a")))
    t = t.replace("{PID}", pid).replace("{pid}", pid.lower()).replace("{FAM}", fam).replace("{MISSES}", "\n".join(ms))
    print(t)
elif kind == "growth":
    name, host, fam, what, code = sys.argv[2:7]
    t = open(V + "/tools/growth_prompt.txt").read()
    print(t.replace("{NAME}", name).replace("{HOST}", host).replace("{FAM}", fam).replace("{WHAT}", what).replace("{CODE}", code))
