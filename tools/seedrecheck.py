#!/usr/bin/env python3
"""seedrecheck.py <seeded name>... : re-run the current checks against stored seeded changes (quick, then thorough
if quick misses) and update detected_by in meta.json; the previous result is kept under detected_by_before."""
import json, os, subprocess, sys
V = "/verif"
for name in sys.argv[1:]:
    d = os.path.join(V, "seeded", name)
    m = json.load(open(d + "/meta.json"))
    pid = m.get("breaks_property") or m["property"]
    pid = os.environ.get("SEED_PID", pid)
    det = {}
    for tier in ("quick", "thorough"):
        r = subprocess.run([V + "/tools/seedrun.sh", pid, d + "/patch.diff", tier], stdout=subprocess.PIPE, stderr=subprocess.STDOUT, text=True)
        det[tier] = {"rc": r.returncode, "detected": r.returncode == 1, "output": r.stdout[-1200:]}
        print(name, pid, tier, "rc=%d" % r.returncode, flush=True)
        if r.returncode == 1:
            break
    old = m.get("detected_by")
    if old and "detected_by_before" not in m:
        m["detected_by_before"] = {k: ({"rc": v.get("rc"), "detected": v.get("detected")} if isinstance(v, dict) else v) for k, v in old.items()}
    m["detected_by"] = det
    if pid != (m.get("breaks_property") or m["property"]):
        m["detected_by_check_of"] = pid
    json.dump(m, open(d + "/meta.json", "w"), indent=1)
