#!/bin/sh
# usage: mkmut.sh <PID> <tag> <N>  -> creates worktree /tmp/<tag>-wt with TASK.md (mutator brief incl. property text only)
set -e
PID=$1; TAG=$2; N=${3:-3}
WT=/tmp/$TAG-wt
git -C /repo worktree add --detach "$WT" HEAD >/dev/null 2>&1
python3 - "$PID" "$TAG" "$N" "$WT" <<'PY'
import json,sys
pid,tag,n,wt=sys.argv[1:]
for l in open('/verif/properties.jsonl'):
    p=json.loads(l)
    if p['id']==pid: break
prop="[%s] %s\n\nStatement: %s\n\nQuantifier: %s\n\nAnchored in: %s" % (p['id'],p['title'],p['statement'],p['quantifier']['text'],", ".join(p['anchors']['files']))
t=open('/verif/tools/mutator_prompt.txt').read()
t=t.replace('{WT}',wt).replace('{TAG}',tag).replace('{PROPERTY}',prop).replace('{N}',n).replace('{PID}',pid)
open(wt+'/TASK.md','w').write(t)
PY
mkdir -p /tmp/$TAG-out
echo "$WT"
