#!/usr/bin/env python3
"""benignrecheck.py <benign name>... : re-run the current quick check against stored property-preserving changes;
the previous result is kept under check_result_before (first time only)."""
import json, os, subprocess, sys
V = "/verif"
for name in sys.argv[1:]:
    d = os.path.join(V, "benign", name)
    m = json.load(open(d + "/meta.json"))
    pid = m["property"]
    r = subprocess.run([V + "/tools/seedrun.sh", pid, d + "/patch.diff", "quick"], stdout=subprocess.PIPE, stderr=subprocess.STDOUT, text=True)
    print(name, "quick rc=%d" % r.returncode, flush=True)
    if "check_result_before" not in m and m.get("check_result"):
        m["check_result_before"] = {k: {"rc": v.get("rc")} for k, v in m["check_result"].items()}
    m["check_result"] = {"quick": {"rc": r.returncode, "silent": r.returncode == 0, "output": r.stdout[-2000:] if r.returncode else ""}}
    json.dump(m, open(d + "/meta.json", "w"), indent=1)
