#!/bin/sh
# usage: seedrun.sh <PID> <patch.diff> [quick|thorough]
# Applies a seeded change in a scratch worktree of /repo HEAD, runs the check against it through VERIF_REPO
# (evidence/replays redirected into the scratch dir), prints the tail, removes the worktree.
# Exit status = the check's (0 missed, 1 detected, 2 check broken).
PID=$1; PATCH=$2; TIER=${3:-quick}
WT=$(mktemp -d /tmp/seedrun-XXXXXX)
rmdir "$WT"
git -C /repo worktree add --detach "$WT" HEAD >/dev/null 2>&1 || { echo "worktree failed"; exit 2; }
trap 'git -C /repo worktree remove --force "$WT" >/dev/null 2>&1; rm -rf "$WT" "$WT.log" "$WT.ev"' EXIT
git -C "$WT" apply "$PATCH" || { echo "patch does not apply"; exit 2; }
cd /verif
mkdir -p "$WT.ev"
VERIF_REPO="$WT" VERIF_EVIDENCE_DIR="$WT.ev" VERIF_REPLAYS_DIR="$WT.ev" ./check "$PID" --tier "$TIER" >"$WT.log" 2>&1
rc=$?
grep -E "VIOLATION|KNOWN-FINDING|CHECK-BROKEN|rejected at|previous event|done rc" "$WT.log" | head -${SEEDRUN_TAIL:-12}
[ $rc -eq 2 ] && tail -30 "$WT.log"
exit $rc
